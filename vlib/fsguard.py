"""FSGUARD - record which files picotool touches (DESIGN.md 3.5).

    with FsGuard() as g:
        ... call into pico8 ...
    g.records   -> [(op, mode, realpath), ...] in call order

While active, builtins.open / io.open / os.open / os.path.isfile / os.path.exists /
os.path.isdir / os.listdir are replaced by wrappers that pass every call through unchanged.
A call is RECORDED only when the frame that issued it belongs to a module whose __name__
starts with one of `prefixes` (default 'pico8.'), so tempfile, pypng, Hypothesis and the
harness itself are never attributed.  `import os.path; os.path.isfile(p)` is covered because the
attribute is replaced on the os.path module object; a bare `open(p)` because builtins.open is.
Everything is restored on exit, also when the body raises.  Not re-entrant, not thread-safe.
"""
import builtins
import io
import os
import sys

_ACTIVE = []


def _real(path):
    if isinstance(path, int):
        return '<fd %d>' % path
    try:
        p = os.fspath(path)
        if isinstance(p, bytes):
            p = os.fsdecode(p)
        return os.path.realpath(p)
    except Exception:       # unprintable argument: the pass-through call reports the error
        return '<%r>' % (path,)


class FsGuard:
    def __init__(self, prefixes=('pico8.',)):
        self.prefixes = tuple(prefixes)
        self.records = []
        self._saved = []

    # -- recording ------------------------------------------------------------------
    def _mine(self, frame):
        name = frame.f_globals.get('__name__', '')
        return isinstance(name, str) and (name + '.').startswith(self.prefixes)

    def _wrap(self, op, orig, mode_of):
        guard = self

        def wrapper(*args, **kwargs):
            if args or 'file' in kwargs or 'path' in kwargs:
                try:
                    if guard._mine(sys._getframe(1)):
                        path = args[0] if args else kwargs.get('file', kwargs.get('path'))
                        guard.records.append((op, mode_of(args, kwargs), _real(path)))
                except ValueError:      # no caller frame
                    pass
            return orig(*args, **kwargs)
        wrapper.__name__ = getattr(orig, '__name__', op)
        wrapper.__wrapped__ = orig
        return wrapper

    # -- install / restore ----------------------------------------------------------
    def _patch(self, obj, attr, op, mode_of):
        orig = getattr(obj, attr)
        self._saved.append((obj, attr, orig))
        setattr(obj, attr, self._wrap(op, orig, mode_of))

    def __enter__(self):
        if _ACTIVE:
            raise RuntimeError('FsGuard is not re-entrant')
        _ACTIVE.append(self)

        def open_mode(args, kwargs):
            return args[1] if len(args) > 1 else kwargs.get('mode', 'r')

        def os_open_mode(args, kwargs):
            flags = args[1] if len(args) > 1 else kwargs.get('flags', 0)
            return 'flags=%#x' % flags

        def none(_args, _kwargs):
            return ''
        try:
            same = io.open is builtins.open
            self._patch(builtins, 'open', 'open', open_mode)
            if same:
                self._saved.append((io, 'open', io.open))
                io.open = builtins.open
            else:
                self._patch(io, 'open', 'open', open_mode)
            self._patch(os, 'open', 'os.open', os_open_mode)
            self._patch(os.path, 'isfile', 'isfile', none)
            self._patch(os.path, 'exists', 'exists', none)
            self._patch(os.path, 'isdir', 'isdir', none)
            self._patch(os, 'listdir', 'listdir', none)
        except BaseException:
            self._restore()
            raise
        return self

    def _restore(self):
        while self._saved:
            obj, attr, orig = self._saved.pop()
            setattr(obj, attr, orig)
        if self in _ACTIVE:
            _ACTIVE.remove(self)

    def __exit__(self, *_exc):
        self._restore()
        return False

    # -- queries --------------------------------------------------------------------
    def opened(self):
        """[(mode, realpath)] of open()/os.open() calls, in order."""
        return [(m, p) for (op, m, p) in self.records if op in ('open', 'os.open')]

    def probed(self):
        """[realpath] of isfile/exists/isdir/listdir calls, in order."""
        return [p for (op, _m, p) in self.records if op not in ('open', 'os.open')]


def contains(root, path):
    """Real containment: path is root or lies below it (both already absolute + normalised)."""
    root = root.rstrip(os.sep) or os.sep
    return path == root or path.startswith(root + os.sep) or root == os.sep
