"""Runner for the picotool property checks.

Usage (through ./check):  check <ID> [--tier quick|thorough] [--replay PATH] [--collect]

Exit codes: 0 = property held on everything explored (possibly with KNOWN-FINDING
lines), 1 = violation (prints "VIOLATION property=<id> replay=<path>"), 2 = harness
error (never a verdict about picotool).
"""
import argparse
import base64
import hashlib
import importlib
import json
import multiprocessing
import os
import sys
import time
import traceback

VERIF = os.path.dirname(os.path.dirname(os.path.abspath(__file__)))
REPO = os.environ.get('VERIF_REPO', '/repo')


def _setup_paths():
    # code under test always comes from the working tree of $VERIF_REPO
    if REPO in sys.path:
        sys.path.remove(REPO)
    sys.path.insert(0, REPO)
    if VERIF not in sys.path:
        sys.path.insert(1, VERIF)
    deps = os.path.join(VERIF, '.deps')
    if os.path.isdir(deps) and deps not in sys.path:
        sys.path.append(deps)
    for m in [m for m in sys.modules if m == 'pico8' or m.startswith('pico8.')]:
        del sys.modules[m]
    import pico8
    got = os.path.realpath(os.path.dirname(pico8.__file__))
    want = os.path.realpath(os.path.join(REPO, 'pico8'))
    if got != want:
        raise HarnessError('pico8 imported from %s, expected %s' % (got, want))
    from pico8 import util
    util.set_verbosity(util.VERBOSITY_QUIET)

    class _Null:
        def write(self, *_a):
            return 0

        def flush(self):
            pass
    util._error_stream = _Null()
    util._write_stream = _Null()


class HarnessError(Exception):
    pass


class Violation(Exception):
    """The property was violated by the code under test on `case`."""

    def __init__(self, msg, case=None, clause=None):
        super().__init__(msg)
        self.msg = msg
        self.case = case if case is not None else {}
        self.clause = clause


def b64(b):
    return base64.b64encode(bytes(b)).decode('ascii')


def unb64(s):
    return base64.b64decode(s)


def jsonable(o):
    if isinstance(o, (bytes, bytearray)):
        return {'__b64__': b64(o)}
    if isinstance(o, dict):
        return {str(k): jsonable(v) for k, v in o.items()}
    if isinstance(o, (list, tuple)):
        return [jsonable(v) for v in o]
    if isinstance(o, (set, frozenset)):
        return sorted(jsonable(v) for v in o)
    if isinstance(o, (str, int, float, bool)) or o is None:
        return o
    return repr(o)


def unjson(o):
    if isinstance(o, dict):
        if set(o.keys()) == {'__b64__'}:
            return unb64(o['__b64__'])
        return {k: unjson(v) for k, v in o.items()}
    if isinstance(o, list):
        return [unjson(v) for v in o]
    return o


def show(b, limit=160):
    """Readable rendering of bytes for evidence samples."""
    if isinstance(b, (bytes, bytearray)):
        s = repr(bytes(b))[2:-1]
    else:
        s = str(b)
    if len(s) > limit:
        s = s[:limit] + '...(%d more)' % (len(s) - limit)
    return s


def derive_seed(*parts):
    h = hashlib.sha256(('|'.join(str(p) for p in parts)).encode()).digest()
    return int.from_bytes(h[:8], 'big')


class Stats:
    """Mergeable counters for one check run."""

    def __init__(self):
        self.evaluations = 0
        self.nontrivial = set()
        self.classes = {}
        self.samples = []
        self.excluded = {}
        self.extra = {}
        self.notes = []

    def count(self, label, n=1):
        self.classes[label] = self.classes.get(label, 0) + n

    def exclude(self, label, n=1):
        self.excluded[label] = self.excluded.get(label, 0) + n

    def case(self, key, nontrivial, sample=None, labels=()):
        """Record one executed case. key: bytes/str identifying the case."""
        self.evaluations += 1
        if nontrivial:
            if not isinstance(key, (bytes, bytearray)):
                key = repr(key).encode('utf-8', 'replace')
            self.nontrivial.add(hashlib.blake2b(key, digest_size=8).digest())
            if sample is not None and len(self.samples) < 6:
                self.samples.append(sample)
        for lab in labels:
            self.count(lab)

    def merge(self, other):
        self.evaluations += other.evaluations
        self.nontrivial |= other.nontrivial
        for k, v in other.classes.items():
            self.classes[k] = self.classes.get(k, 0) + v
        for k, v in other.excluded.items():
            self.excluded[k] = self.excluded.get(k, 0) + v
        for s in other.samples:
            if len(self.samples) < 6:
                self.samples.append(s)
        for k, v in other.extra.items():
            if isinstance(v, bool):
                self.extra[k] = bool(self.extra.get(k, True)) and v
            elif isinstance(v, (int, float)) and isinstance(self.extra.get(k), (int, float)):
                self.extra[k] += v
            elif isinstance(v, set) and isinstance(self.extra.get(k), set):
                self.extra[k] |= v
            else:
                self.extra.setdefault(k, v)
        self.notes.extend(other.notes)


class Ctx:
    def __init__(self, prop, tier, seed, shard=0, nshards=1, open_findings=()):
        self.prop = prop
        self.tier = tier
        self.seed = seed
        self.shard = shard
        self.nshards = nshards
        self.stats = Stats()
        self.open_findings = set(open_findings)
        self.quick = tier == 'quick'

    def derive(self, *parts):
        return derive_seed(self.seed, self.prop, self.shard, *parts)

    def hyp(self, name, strategy, body, max_examples, shrink=True):
        """Run `body(value)` over `strategy` with Hypothesis; raises Violation (the shrunk
        one) if the body raised one."""
        import hypothesis
        from hypothesis import HealthCheck, Phase, given, settings
        sd = self.derive(name) % (2 ** 63)
        if not self.quick:
            # the thorough tier multiplies every generated part (VERIF_SCALE, default 3); enumerated parts are
            # complete already
            max_examples = max(1, int(max_examples * float(os.environ.get('VERIF_SCALE', '3'))))
        st = settings(max_examples=max_examples, database=None, deadline=None,
                      derandomize=False, report_multiple_bugs=False,
                      suppress_health_check=list(HealthCheck),
                      phases=[Phase.generate, Phase.shrink] if shrink else [Phase.generate],
                      print_blob=False)

        # Shrinking is capped by wall clock: after the cap every further candidate "passes", the shrinker stops,
        # and the best (last) violation found so far is reported.  The cap never turns a pass into a failure.
        cap = float(os.environ.get('VERIF_SHRINK_CAP', '45' if self.quick else '240'))
        state = {'last': None, 't0': None}

        @hypothesis.seed(sd)
        @st
        @given(strategy)
        def _t(v):
            if state['t0'] is not None and time.time() - state['t0'] > cap:
                return
            try:
                body(v)
            except Violation as e:
                if state['t0'] is None:
                    state['t0'] = time.time()
                state['last'] = e
                raise
        try:
            _t()
        except Violation:
            raise
        except BaseException as e:
            if state['last'] is not None and state['t0'] is not None and time.time() - state['t0'] > cap:
                raise state['last']
            if state['last'] is not None and 'Flaky' in type(e).__name__:
                # the oracle raised a violation that Hypothesis could not reproduce when it replayed the example:
                # the code under test carries state between calls (caches, module-level memos).  The violation
                # was observed against the real code, so it is reported (with the case as first seen).
                v = state['last']
                v.msg = v.msg + ' [not reproduced on immediate replay: state carried between calls in the code under test]'
                raise v
            raise

    def fuzz(self, target, runs, max_len=256, corpus=()):
        """Coverage-guided campaign (atheris/libFuzzer) in a subprocess; the oracle lives inside the fuzz target
        (vlib/fuzz.py).  Skipped (recorded, never a failure) when atheris cannot be imported."""
        import shutil
        import subprocess
        py = sys.executable
        probe = subprocess.run([py, '-c', 'import sys; sys.path.append(%r); import atheris' % os.path.join(VERIF, '.deps')],
                               capture_output=True)
        if probe.returncode != 0:
            self.stats.extra['atheris'] = 'unavailable'
            return
        work = os.path.join(VERIF, '.work', 'fuzz-%s-%d-%d' % (target, os.getpid(), self.shard))
        shutil.rmtree(work, ignore_errors=True)
        os.makedirs(os.path.join(work, 'corpus'))
        try:
            for i, c in enumerate(corpus):
                with open(os.path.join(work, 'corpus', 'seed%03d' % i), 'wb') as fh:
                    fh.write(c)
            res = os.path.join(work, 'result.json')
            seed = self.derive('fuzz', target) % (2 ** 31 - 1) + 1
            cmd = [py, '-m', 'vlib.fuzz', target, res, '-runs=%d' % runs, '-seed=%d' % seed, '-max_len=%d' % max_len,
                   '-print_final_stats=0', '-verbosity=0', os.path.join(work, 'corpus')]
            env = dict(os.environ, PYTHONHASHSEED='0', VERIF_OPEN_FINDINGS=','.join(sorted(self.open_findings)))
            try:
                subprocess.run(cmd, cwd=VERIF, env=env, stdout=subprocess.DEVNULL, stderr=subprocess.DEVNULL,
                               timeout=3600)
            except subprocess.TimeoutExpired:
                self.stats.extra['atheris'] = 'timeout (inconclusive)'
            if not os.path.exists(res):
                raise HarnessError('atheris target %s wrote no result' % target)
            out = json.load(open(res))
        finally:
            shutil.rmtree(work, ignore_errors=True)
        self.stats.extra['atheris'] = 'used'
        self.stats.extra['atheris_runs'] = self.stats.extra.get('atheris_runs', 0) + out['runs']
        self.stats.extra['atheris_in_domain'] = self.stats.extra.get('atheris_in_domain', 0) + out['in_domain']
        self.stats.evaluations += out['in_domain']
        self.stats.count('atheris_in_domain', out['in_domain'])
        self.stats.count('atheris_nontrivial', out['nontrivial'])
        for smp in out.get('samples', [])[:2]:
            if len(self.stats.samples) < 6:
                self.stats.samples.append({'atheris_input': smp})
        if out.get('violation'):
            v = out['violation']
            raise Violation('[atheris] ' + v['msg'], unjson(v['case']), v.get('clause'))

    def machine(self, name, machine_cls, max_examples, steps):
        import hypothesis
        from hypothesis import HealthCheck, Phase, settings
        from hypothesis.stateful import run_state_machine_as_test
        sd = self.derive(name) % (2 ** 63)
        if not self.quick:
            max_examples = max(1, int(max_examples * float(os.environ.get('VERIF_SCALE', '3'))))
        st = settings(max_examples=max_examples, stateful_step_count=steps,
                      database=None, deadline=None, derandomize=False,
                      report_multiple_bugs=False,
                      suppress_health_check=list(HealthCheck),
                      phases=[Phase.generate, Phase.shrink], print_blob=False)
        run_state_machine_as_test(hypothesis.seed(sd)(machine_cls), settings=st)


# ---------------------------------------------------------------------------------------
# known findings
# ---------------------------------------------------------------------------------------

def load_known(prop):
    path = os.path.join(VERIF, 'known_findings.txt')
    known, fixed = [], []
    if not os.path.exists(path):
        return known, fixed
    for line in open(path, encoding='utf-8'):
        line = line.strip()
        if not line or line.startswith('#'):
            continue
        if line.startswith('known:'):
            head, _, desc = line[len('known:'):].partition('::')
            kv = dict(p.split('=', 1) for p in head.split() if '=' in p)
            if kv.get('property') == prop:
                kv['desc'] = desc.strip()
                known.append(kv)
        elif line.startswith('fixed:'):
            kv = dict(p.split('=', 1) for p in line[len('fixed:'):].split() if '=' in p)
            if kv.get('property') == prop:
                fixed.append(line)
    return known, fixed


# ---------------------------------------------------------------------------------------
# running parts
# ---------------------------------------------------------------------------------------

def _run_part(args):
    (prop, tier, seed, part_name, shard, nshards, open_findings) = args
    try:
        _setup_paths()
        mod = importlib.import_module('checks.' + prop.lower())
        ctx = Ctx(prop, tier, seed, shard, nshards, open_findings)
        func = dict((p[0], p[1]) for p in mod.parts(tier))[part_name]
        t0 = time.time()
        viol = None
        try:
            func(ctx)
        except Violation as v:
            viol = {'msg': v.msg, 'case': jsonable(v.case), 'clause': v.clause,
                    'part': part_name, 'shard': shard}
        ctx.stats.extra['part_wall_s:' + part_name] = round(time.time() - t0, 2)
        return ('ok', ctx.stats, viol)
    except BaseException:
        return ('error', traceback.format_exc(), None)


def write_replay(prop, viol):
    out_dir = os.path.join(VERIF, 'replays', 'out')
    os.makedirs(out_dir, exist_ok=True)
    blob = json.dumps(viol, sort_keys=True, indent=1)
    h = hashlib.sha256(blob.encode()).hexdigest()[:12]
    path = os.path.join(out_dir, '%s-%s.json' % (prop, h))
    with open(path, 'w') as fh:
        fh.write(blob)
    return os.path.relpath(path, VERIF)


def do_replay(mod, prop, path):
    data = json.load(open(path))
    case = unjson(data.get('case', data))
    try:
        mod.replay(case)
    except Violation as v:
        print('replay: property violated: %s' % v.msg)
        print('VIOLATION property=%s replay=%s' % (prop, path))
        return 1
    print('replay: case passes')
    return 0


def main(argv=None):
    ap = argparse.ArgumentParser()
    ap.add_argument('prop')
    ap.add_argument('--tier', default=os.environ.get('VERIF_TIER', 'quick'))
    ap.add_argument('--replay')
    ap.add_argument('--jobs', type=int, default=0)
    ap.add_argument('--only', help='run only the named part (development aid)')
    args = ap.parse_args(argv)
    prop = args.prop.upper()
    tier = args.tier if args.tier in ('quick', 'thorough') else 'quick'
    try:
        seed = int(os.environ.get('VERIF_SEED', '1'))
    except ValueError:
        seed = derive_seed(os.environ.get('VERIF_SEED'))
    t0 = time.time()
    try:
        _setup_paths()
        mod = importlib.import_module('checks.' + prop.lower())
    except BaseException:
        traceback.print_exc()
        print('HARNESS-ERROR property=%s import failed' % prop)
        return 2

    if args.replay:
        try:
            return do_replay(mod, prop, args.replay)
        except BaseException:
            traceback.print_exc()
            return 2

    # 1. known findings: probe each pinned repro against the real code
    known, fixed = load_known(prop)
    open_findings = []
    finding_status = []
    for kf in known:
        rp = os.path.join(VERIF, kf['repro'])
        try:
            case = unjson(json.load(open(rp)))
            case = case.get('case', case)
            try:
                mod.replay(case)
                still = False
            except Violation:
                still = True
        except BaseException:
            traceback.print_exc()
            print('HARNESS-ERROR property=%s known-finding probe %s failed' % (prop, kf.get('id')))
            return 2
        finding_status.append({'id': kf.get('id'), 'still_fails': still})
        if still:
            print('KNOWN-FINDING: property=%s %s' % (prop, kf['desc']))
            open_findings.extend(t for t in kf.get('tags', '').split(',') if t)
            open_findings.append('id:' + kf.get('id', ''))

    # 2. regression replays of fixed defects and earlier shrunk failures
    total = Stats()
    violations = []
    reg_dir = os.path.join(VERIF, 'replays', 'known')
    n_reg = 0
    known_repros = {os.path.basename(k['repro']) for k in known}
    if os.path.isdir(reg_dir):
        for fn in sorted(os.listdir(reg_dir)):
            if not fn.startswith(prop + '-') or fn in known_repros:
                continue
            try:
                data = unjson(json.load(open(os.path.join(reg_dir, fn))))
                n_reg += 1
                try:
                    mod.replay(data.get('case', data))
                except Violation as v:
                    violations.append({'msg': 'regression %s: %s' % (fn, v.msg),
                                       'case': jsonable(v.case), 'clause': v.clause,
                                       'part': 'regression', 'shard': 0})
            except BaseException:
                traceback.print_exc()
                print('HARNESS-ERROR property=%s regression replay %s failed' % (prop, fn))
                return 2
    total.extra['regression_replays'] = n_reg

    # 3. the search
    jobs = []
    for p in mod.parts(tier):
        name, _func, nshards = p[0], p[1], p[2]
        if args.only and name != args.only:
            continue
        for sh in range(nshards):
            jobs.append((prop, tier, seed, name, sh, nshards, tuple(open_findings)))
    ncpu = args.jobs or int(os.environ.get('VERIF_JOBS', '0')) or min(16, os.cpu_count() or 1)
    harness_errors = []
    if len(jobs) == 1 or ncpu == 1:
        results = [_run_part(j) for j in jobs]
    else:
        mpctx = multiprocessing.get_context('fork')
        with mpctx.Pool(min(ncpu, len(jobs))) as pool:
            results = pool.map(_run_part, jobs, chunksize=1)
    for r in results:
        if r[0] == 'error':
            harness_errors.append(r[1])
            continue
        total.merge(r[1])
        if r[2] is not None:
            violations.append(r[2])

    if harness_errors:
        sys.stderr.write(harness_errors[0])
        print('HARNESS-ERROR property=%s %d part(s) failed' % (prop, len(harness_errors)))
        return 2

    # 4. vacuity guard
    msgs = []
    if hasattr(mod, 'vacuity') and not violations and not args.only:
        msgs = mod.vacuity(total, tier) or []
    if msgs:
        for m in msgs:
            print('HARNESS-ERROR property=%s vacuous: %s' % (prop, m))
        return 2

    # 5. evidence
    wall = time.time() - t0
    level = getattr(mod, 'LEVEL', 'exploration')
    cov = {
        'evaluations': total.evaluations,
        'distinct_nontrivial': len(total.nontrivial),
        'rule': getattr(mod, 'RULE', ''),
        'samples': total.samples[:6],
        'classes': dict(sorted(total.classes.items())),
        'excluded_by_construction': dict(sorted(total.excluded.items())),
        'known_findings': finding_status,
        'shards': len(jobs),
    }
    for k, v in total.extra.items():
        cov[k] = sorted(v) if isinstance(v, set) else v
    if hasattr(mod, 'finish'):
        mod.finish(total, cov, tier)
    ev = {
        'property_id': prop, 'tier': tier, 'seed': seed, 'level': level,
        'coverage': jsonable(cov),
        'assumptions': list(getattr(mod, 'ASSUMPTIONS', [])),
        'wall_s': round(wall, 2), 'violations': len(violations),
        'tools': {'python': sys.version.split()[0]},
    }
    try:
        import hypothesis
        ev['tools']['hypothesis'] = hypothesis.__version__
    except Exception:
        pass
    if not args.only and os.path.realpath(REPO) == '/repo' and not os.environ.get('VERIF_NO_EVIDENCE'):
        os.makedirs(os.path.join(VERIF, 'evidence'), exist_ok=True)
        with open(os.path.join(VERIF, 'evidence', prop + '.json'), 'w') as fh:
            json.dump(ev, fh, indent=1, sort_keys=True)
            fh.write('\n')

    print('%s tier=%s seed=%d evaluations=%d distinct_nontrivial=%d wall=%.1fs' % (
        prop, tier, seed, total.evaluations, len(total.nontrivial), wall))
    if violations:
        for v in violations:
            path = write_replay(prop, v)
            print('  violated: %s' % v['msg'])
            print('VIOLATION property=%s replay=%s' % (prop, path))
        return 1
    return 0


if __name__ == '__main__':
    try:
        rc = main()
    except BaseException:
        traceback.print_exc()
        rc = 2
    sys.stdout.flush()
    sys.exit(rc)
