"""Cart / region generators (CARTGEN)."""
from .choices import Choices, expand

REGIONS = (('gfx', 0x0000, 0x2000), ('map', 0x2000, 0x3000), ('gff', 0x3000, 0x3100),
           ('music', 0x3100, 0x3200), ('sfx', 0x3200, 0x4300))
BOUNDARIES = (0x0, 0x2000, 0x3000, 0x3100, 0x3200, 0x4300)
MEM_SIZE = 0x4300

MODES = ('zero', 'random', 'ff', 'ramp', 'sparse', 'edges')


def region_bytes(ch, size):
    """One region's content from the choice stream; returns (mode, bytes)."""
    mode = ch.pick(MODES)
    if mode == 'zero':
        return mode, bytes(size)
    if mode == 'ff':
        return mode, b'\xff' * size
    if mode == 'random':
        return mode, expand(b'r' + ch.take(4), size)
    if mode == 'ramp':
        off = ch.byte()
        return mode, bytes((i + off) & 0xff for i in range(size))
    buf = bytearray(size)
    if mode == 'sparse':
        for _ in range(1 + ch.below(8)):
            pos = ch.below(size)
            patch = expand(b's' + ch.take(2), 1 + ch.below(24))
            buf[pos:pos + len(patch)] = patch[:size - pos]
        return mode, bytes(buf)
    # edges: non-zero bytes hugging both ends of the region and of each 64-byte row
    fill = expand(b'e' + ch.take(2), 16)
    buf[0:8] = fill[0:8]
    buf[size - 8:size] = fill[8:16]
    for row in range(0, size, 64):
        buf[row] = fill[(row // 64) % 16] | 1
        buf[row + 63 if row + 63 < size else size - 1] = fill[(row // 64 + 5) % 16] | 0x80
    return mode, bytes(buf)


def memory_from_choices(ch):
    """0x4300 bytes of cart data memory; returns (bytes, modes)."""
    parts = []
    modes = []
    for _name, lo, hi in REGIONS:
        m, b = region_bytes(ch, hi - lo)
        modes.append(m)
        parts.append(b)
    return b''.join(parts), tuple(modes)


def with_untouched_sfx(mem, sel):
    """Give some sfx patterns the contents PICO-8 leaves in patterns nobody edited: no notes, editor mode 0,
    speed 16, no loop (sel picks which: pattern 0 alone, the first few, or all but one).  Deterministic in sel;
    consumes nothing from the choice stream."""
    b = bytearray(mem)
    if sel % 3 == 0:
        ids = [0]
    elif sel % 3 == 1:
        ids = list(range(0, 1 + sel % 7))
    else:
        ids = [i for i in range(64) if i != 1 + sel % 60]
    for i in ids:
        b[0x3200 + 68 * i:0x3200 + 68 * (i + 1)] = bytes(64) + b'\x00\x10\x00\x00'
    return bytes(b)


def memory_from_seed(seed):
    return memory_from_choices(Choices(seed))


def make_game(mem, version=None, code=None, label=None, filename=None):
    """Build a pico8 Game whose data regions hold `mem` (0x4300 bytes)."""
    from pico8.game import game as game_mod
    from pico8.gfx.gfx import Gfx
    from pico8.lua.lua import Lua
    g = game_mod.Game.make_empty_game(filename=filename)
    if version is not None:
        g.version = version
    g.gfx._data[:] = mem[0x0000:0x2000]
    g.map._data[:] = mem[0x2000:0x3000]
    g.gff._data[:] = mem[0x3000:0x3100]
    g.music._data[:] = mem[0x3100:0x3200]
    g.sfx._data[:] = mem[0x3200:0x4300]
    if code is not None:
        g.lua = Lua.from_lines([code] if isinstance(code, (bytes, bytearray)) else code,
                               version=g.version)
    if label is None:
        g.label = None
    else:
        g.label = Gfx(data=bytearray(label), version=g.version)
    return g


def region_datas(g):
    return [bytes(g.gfx._data), bytes(g.map._data), bytes(g.gff._data),
            bytes(g.music._data), bytes(g.sfx._data)]


def flat(g):
    return b''.join(region_datas(g))


def distinct_values(b):
    return len(set(b))


# ---------------------------------------------------------------------------------------
# filler Lua: simple statements carrying arbitrary P8SCII bytes in strings, comments, names
# ---------------------------------------------------------------------------------------

_NAME_START = b'abcdefghijklmnopqrstuvwxyz_ABCXYZ' + bytes(range(0x80, 0x100))
_NAME_REST = _NAME_START + b'0123456789'
_KEYWORDS = {b'and', b'break', b'do', b'else', b'elseif', b'end', b'false', b'for', b'function', b'goto',
             b'if', b'in', b'local', b'nil', b'not', b'or', b'repeat', b'return', b'then', b'true',
             b'until', b'while'}


def filler_name(ch):
    n = 1 + ch.below(6)
    name = bytes([ch.pick(_NAME_START)] + [ch.pick(_NAME_REST) for _ in range(n - 1)])
    if name in _KEYWORDS:
        name += b'_'
    return name


def filler_string_body(ch, quote, allow_escapes=False):
    """Raw bytes legal inside a one-line quoted string (no quote, backslash, CR, LF)."""
    n = ch.below(12)
    out = bytearray()
    for _ in range(n):
        b = ch.byte()
        if b in (quote, 0x5c, 0x0a, 0x0d):
            b = 0x61
        out.append(b)
    return bytes(out)


def filler_code(ch, max_lines=12, crlf=False):
    """Returns (source bytes, stats dict)."""
    lines = []
    nl = b'\r\n' if crlf else b'\n'
    n = ch.below(max_lines + 1)
    has_high = False
    for _ in range(n):
        kind = ch.below(8)
        if kind == 0:
            ln = filler_name(ch) + b'=' + str(ch.below(65536)).encode()
        elif kind == 1:
            q = ch.pick(b'"\'')
            body = filler_string_body(ch, q)
            ln = filler_name(ch) + b' = ' + bytes((q,)) + body + bytes((q,))
        elif kind == 2:
            body = bytes(b if b not in (0x0a, 0x0d) else 0x20 for b in ch.take(ch.below(16)))
            ln = b'-- ' + body
        elif kind == 3:
            ln = b''
        elif kind == 4:
            ln = b'  ' + filler_name(ch) + b'(' + filler_name(ch) + b')\t '
        elif kind == 5:
            ln = b'if ' + filler_name(ch) + b' then ' + filler_name(ch) + b'+=1 end'
        elif kind == 6:
            body = bytes(b if b not in (0x0a, 0x0d, 0x5d) else 0x2e for b in ch.take(ch.below(10)))
            ln = filler_name(ch) + b'=[[' + body + b']]'
        else:
            ln = b'print(' + b'"' + filler_string_body(ch, 0x22) + b'"' + b')  // ' + filler_name(ch)
        if any(b >= 0x80 or b < 0x20 for b in ln):
            has_high = True
        lines.append(ln)
    src = nl.join(lines)
    final_nl = ch.chance(200)
    if lines and final_nl:
        src += nl
    return src, {'lines': n, 'has_special_bytes': has_high, 'final_newline': bool(lines) and final_nl}
