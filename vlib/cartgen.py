"""Cart / region generators (CARTGEN)."""
from .choices import Choices, expand

REGIONS = (('gfx', 0x0000, 0x2000), ('map', 0x2000, 0x3000), ('gff', 0x3000, 0x3100),
           ('music', 0x3100, 0x3200), ('sfx', 0x3200, 0x4300))
BOUNDARIES = (0x0, 0x2000, 0x3000, 0x3100, 0x3200, 0x4300)
MEM_SIZE = 0x4300

MODES = ('zero', 'random', 'ff', 'ramp', 'sparse', 'edges')


def region_bytes(ch, size):
    """One region's content from the choice stream; returns (mode, bytes)."""
    mode = ch.pick(MODES)
    if mode == 'zero':
        return mode, bytes(size)
    if mode == 'ff':
        return mode, b'\xff' * size
    if mode == 'random':
        return mode, expand(b'r' + ch.take(4), size)
    if mode == 'ramp':
        off = ch.byte()
        return mode, bytes((i + off) & 0xff for i in range(size))
    buf = bytearray(size)
    if mode == 'sparse':
        for _ in range(1 + ch.below(8)):
            pos = ch.below(size)
            patch = expand(b's' + ch.take(2), 1 + ch.below(24))
            buf[pos:pos + len(patch)] = patch[:size - pos]
        return mode, bytes(buf)
    # edges: non-zero bytes hugging both ends of the region and of each 64-byte row
    fill = expand(b'e' + ch.take(2), 16)
    buf[0:8] = fill[0:8]
    buf[size - 8:size] = fill[8:16]
    for row in range(0, size, 64):
        buf[row] = fill[(row // 64) % 16] | 1
        buf[row + 63 if row + 63 < size else size - 1] = fill[(row // 64 + 5) % 16] | 0x80
    return mode, bytes(buf)


def memory_from_choices(ch):
    """0x4300 bytes of cart data memory; returns (bytes, modes)."""
    parts = []
    modes = []
    for _name, lo, hi in REGIONS:
        m, b = region_bytes(ch, hi - lo)
        modes.append(m)
        parts.append(b)
    return b''.join(parts), tuple(modes)


def memory_from_seed(seed):
    return memory_from_choices(Choices(seed))


def make_game(mem, version=None, code=None, label=None, filename=None):
    """Build a pico8 Game whose data regions hold `mem` (0x4300 bytes)."""
    from pico8.game import game as game_mod
    from pico8.gfx.gfx import Gfx
    from pico8.lua.lua import Lua
    g = game_mod.Game.make_empty_game(filename=filename)
    if version is not None:
        g.version = version
    g.gfx._data[:] = mem[0x0000:0x2000]
    g.map._data[:] = mem[0x2000:0x3000]
    g.gff._data[:] = mem[0x3000:0x3100]
    g.music._data[:] = mem[0x3100:0x3200]
    g.sfx._data[:] = mem[0x3200:0x4300]
    if code is not None:
        g.lua = Lua.from_lines([code] if isinstance(code, (bytes, bytearray)) else code,
                               version=g.version)
    if label is None:
        g.label = None
    else:
        g.label = Gfx(data=bytearray(label), version=g.version)
    return g


def region_datas(g):
    return [bytes(g.gfx._data), bytes(g.map._data), bytes(g.gff._data),
            bytes(g.music._data), bytes(g.sfx._data)]


def flat(g):
    return b''.join(region_datas(g))


def distinct_values(b):
    return len(set(b))
