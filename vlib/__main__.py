import sys
import traceback
from vlib import runner

try:
    rc = runner.main()
except BaseException:
    traceback.print_exc()
    rc = 2
sys.stdout.flush()
sys.exit(rc)
