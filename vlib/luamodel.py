"""Canonical forms for comparing picotool's AST with LUAGEN's model AST (C08).

canon_model(block)  : generator model  -> canonical tree
canon_ast(root)     : picotool Chunk   -> canonical tree (same shape)
Strings are compared by decoded value, numbers by spelling, expressions as the in-order
sequence of operators and operands (precedence/associativity is deliberately not compared).
"""
from . import reflex


def _strval(text):
    toks = reflex.lex(text)
    assert len(toks) == 1 and toks[0].kind == 'string', text
    return toks[0].value


# ---------------------------------------------------------------- generator model

def canon_model(block):
    return [_m_stmt(s) for s in block]


def _m_body(b):
    params, dots, blk = b
    return ('body', list(params), bool(dots), canon_model(blk))


def _m_exp(e):
    items = []
    for it in e[1]:
        if it[0] in ('unop', 'binop'):
            items.append((it[0], it[1]))
        else:
            items.append(_m_operand(it))
    return ('exp', items)


def _m_table(t):
    out = []
    for f in t[1]:
        if f[0] == 'pos':
            out.append(('pos', _m_exp(f[1])))
        elif f[0] == 'named':
            out.append(('named', f[1], _m_exp(f[2])))
        else:
            out.append(('keyed', _m_exp(f[1]), _m_exp(f[2])))
    return ('table', out)


def _m_args(a):
    if a[0] == 'args':
        return ('args', [_m_exp(e) for e in a[1]])
    if a[0] == 'tablearg':
        return ('tablearg', _m_table(a[1]))
    return ('stringarg', _strval(a[1]))


def _m_chain(c):
    head = c[1]
    h = ('name', head[1]) if head[0] == 'name' else ('paren', _m_exp(head[1]))
    sufs = []
    for s in c[2]:
        if s[0] == 'index':
            sufs.append(('index', _m_exp(s[1])))
        elif s[0] == 'attr':
            sufs.append(('attr', s[1]))
        elif s[0] == 'call':
            sufs.append(('call', _m_args(s[1])))
        else:
            sufs.append(('method', s[1], _m_args(s[2])))
    return ('chain', h, sufs)


def _m_operand(o):
    k = o[0]
    if k in ('nil', 'true', 'false', 'dots'):
        return (k,)
    if k == 'number':
        return ('number', o[1])
    if k == 'string':
        return ('string', _strval(o[1]))
    if k == 'function':
        return ('function', _m_body(o[1]))
    if k == 'table':
        return _m_table(o)
    if k == 'chain':
        return _m_chain(o)
    raise ValueError(o)


def _m_stmt(s):
    k = s[0]
    if k == 'assign':
        return ('assign', [_m_chain(c) for c in s[1]], s[2], [_m_exp(e) for e in s[3]])
    if k == 'call':
        return ('call', _m_chain(s[1]))
    if k == 'print':
        return ('call', ('chain', ('name', b'?'), [('call', _m_args(s[1]))]))
    if k == 'do':
        return ('do', canon_model(s[1]))
    if k == 'while':
        return ('while', _m_exp(s[1]), canon_model(s[2]))
    if k == 'repeat':
        return ('repeat', canon_model(s[1]), _m_exp(s[2]))
    if k == 'if':
        return ('if', [(_m_exp(e), canon_model(b)) for e, b in s[1]],
                canon_model(s[2]) if s[2] is not None else None)
    if k == 'shortif':
        return ('shortif', _m_exp(s[1]), canon_model(s[2]), canon_model(s[3]) if s[3] else None)
    if k == 'ifdo':
        # picotool reads `if (c) do ... end` as an ordinary if whose condition is the parenthesised expression
        return ('if', [(('exp', [('chain', ('paren', _m_exp(s[1])), [])]), canon_model(s[2]))], None)
    if k == 'fornum':
        return ('fornum', s[1], _m_exp(s[2]), _m_exp(s[3]), _m_exp(s[4]) if s[4] is not None else None,
                canon_model(s[5]))
    if k == 'forin':
        return ('forin', list(s[1]), [_m_exp(e) for e in s[2]], canon_model(s[3]))
    if k == 'function':
        return ('function', list(s[1]), s[2], _m_body(s[3]))
    if k == 'localfunction':
        return ('localfunction', s[1], _m_body(s[2]))
    if k == 'local':
        return ('local', list(s[1]), [_m_exp(e) for e in s[2]] if s[2] is not None else None)
    if k in ('goto', 'label'):
        return (k, s[1])
    if k == 'break':
        return ('break',)
    if k == 'return':
        return ('return', [_m_exp(e) for e in s[1]] if s[1] is not None else None)
    raise ValueError(s)


# ---------------------------------------------------------------- picotool AST

class Unexpected(Exception):
    """The picotool tree has a shape the normaliser does not know (reported as a violation)."""


def _cls(n):
    return type(n).__name__


def canon_ast(root):
    if _cls(root) != 'Chunk':
        raise Unexpected('root is %s' % _cls(root))
    return [_a_stmt(s) for s in root.stats]


def _a_block(chunk):
    if _cls(chunk) != 'Chunk':
        raise Unexpected('block is %s' % _cls(chunk))
    return [_a_stmt(s) for s in chunk.stats]


def _tokdata(t):
    return bytes(t._data)


EXP_NODES = ('ExpValue', 'ExpBinOp', 'ExpUnOp', 'VarargDots')
CHAIN_NODES = ('VarName', 'VarIndex', 'VarAttribute', 'FunctionCall', 'FunctionCallMethod')


def _a_exp(n):
    return ('exp', _a_items(n))


def _a_items(n):
    c = _cls(n)
    if c == 'ExpBinOp':
        return _a_items(n.exp1) + [('binop', _tokdata(n.binop))] + _a_items(n.exp2)
    if c == 'ExpUnOp':
        return [('unop', _tokdata(n.unop))] + _a_items(n.exp)
    if c == 'VarargDots':
        return [('dots',)]
    if c == 'ExpValue':
        v = n.value
        if v is None:
            return [('nil',)]
        if v is True:
            return [('true',)]
        if v is False:
            return [('false',)]
        vc = _cls(v)
        if vc == 'TokNumber':
            return [('number', _tokdata(v))]
        if vc == 'TokString':
            return [('string', bytes(v.value))]
        if vc == 'Function':
            return [('function', _a_body(v.funcbody))]
        if vc == 'TableConstructor':
            return [_a_table(v)]
        if vc in CHAIN_NODES:
            return [_a_chain(v)]
        if vc in EXP_NODES:
            return [('chain', ('paren', _a_exp(v)), [])]
        raise Unexpected('ExpValue holds %s' % vc)
    raise Unexpected('expression node %s' % c)


def _a_table(t):
    out = []
    for f in t.fields:
        c = _cls(f)
        if c == 'FieldExp':
            out.append(('pos', _a_exp(f.exp)))
        elif c == 'FieldNamedKey':
            out.append(('named', _tokdata(f.key_name), _a_exp(f.exp)))
        elif c == 'FieldExpKey':
            out.append(('keyed', _a_exp(f.key_exp), _a_exp(f.exp)))
        else:
            raise Unexpected('table field %s' % c)
    return ('table', out)


def _a_args(a):
    c = _cls(a)
    if c == 'FunctionArgs':
        return ('args', [_a_exp(e) for e in a.explist.exps] if a.explist is not None else [])
    if c == 'TableConstructor':
        return ('tablearg', _a_table(a))
    if c == 'TokString':
        return ('stringarg', bytes(a.value))
    raise Unexpected('call args %s' % c)


def _a_chain(n):
    c = _cls(n)
    if c == 'VarName':
        return ('chain', ('name', _tokdata(n.name)), [])
    if c in EXP_NODES:
        return ('chain', ('paren', _a_exp(n)), [])
    if c == 'VarIndex':
        base = _a_chain(n.exp_prefix)
        return ('chain', base[1], base[2] + [('index', _a_exp(n.exp_index))])
    if c == 'VarAttribute':
        base = _a_chain(n.exp_prefix)
        return ('chain', base[1], base[2] + [('attr', _tokdata(n.attr_name))])
    if c == 'FunctionCall':
        base = _a_chain(n.exp_prefix)
        return ('chain', base[1], base[2] + [('call', _a_args(n.args))])
    if c == 'FunctionCallMethod':
        base = _a_chain(n.exp_prefix)
        return ('chain', base[1], base[2] + [('method', _tokdata(n.methodname), _a_args(n.args))])
    raise Unexpected('prefix expression node %s' % c)


def _a_body(b):
    if _cls(b) != 'FunctionBody':
        raise Unexpected('function body %s' % _cls(b))
    params = [_tokdata(t) for t in b.parlist.names] if b.parlist is not None else []
    return ('body', params, b.dots is not None, _a_block(b.block))


def _a_stmt(s):
    c = _cls(s)
    if c == 'StatAssignment':
        return ('assign', [_a_chain(v) for v in s.varlist.vars], _tokdata(s.assignop),
                [_a_exp(e) for e in s.explist.exps])
    if c == 'StatFunctionCall':
        return ('call', _a_chain(s.functioncall))
    if c == 'StatDo':
        return ('do', _a_block(s.block))
    if c == 'StatWhile':
        return ('while', _a_exp(s.exp), _a_block(s.block))
    if c == 'StatRepeat':
        return ('repeat', _a_block(s.block), _a_exp(s.exp))
    if c == 'StatIf':
        pairs = list(s.exp_block_pairs)
        els = None
        if pairs and pairs[-1][0] is None:
            els = _a_block(pairs[-1][1])
            pairs = pairs[:-1]
        if getattr(s, 'short_if', False):
            if len(pairs) != 1:
                raise Unexpected('short-if with %d condition pairs' % len(pairs))
            return ('shortif', _a_exp(pairs[0][0]), _a_block(pairs[0][1]), els)
        return ('if', [(_a_exp(e), _a_block(b)) for e, b in pairs], els)
    if c == 'StatForStep':
        return ('fornum', _tokdata(s.name), _a_exp(s.exp_init), _a_exp(s.exp_end),
                _a_exp(s.exp_step) if s.exp_step is not None else None, _a_block(s.block))
    if c == 'StatForIn':
        return ('forin', [_tokdata(t) for t in s.namelist.names], [_a_exp(e) for e in s.explist.exps],
                _a_block(s.block))
    if c == 'StatFunction':
        fn = s.funcname
        return ('function', [_tokdata(t) for t in fn.namepath],
                _tokdata(fn.methodname) if fn.methodname is not None else None, _a_body(s.funcbody))
    if c == 'StatLocalFunction':
        return ('localfunction', _tokdata(s.funcname), _a_body(s.funcbody))
    if c == 'StatLocalAssignment':
        return ('local', [_tokdata(t) for t in s.namelist.names],
                [_a_exp(e) for e in s.explist.exps] if s.explist is not None else None)
    if c == 'StatGoto':
        return ('goto', bytes(s.label))
    if c == 'StatLabel':
        return ('label', bytes(s.label))
    if c == 'StatBreak':
        return ('break',)
    if c == 'StatReturn':
        return ('return', [_a_exp(e) for e in s.explist.exps] if s.explist is not None else None)
    raise Unexpected('statement node %s' % c)


# ---------------------------------------------------------------- statement spans

def stat_nodes(root):
    """All statement nodes of a picotool tree (any order)."""
    out = []
    seen = set()

    def walk(n):
        if n is None or isinstance(n, (bytes, str, int, float, bool)):
            return
        if isinstance(n, (list, tuple)):
            for x in n:
                walk(x)
            return
        if not hasattr(n, '_fields'):
            return
        if id(n) in seen:
            return
        seen.add(id(n))
        if _cls(n).startswith('Stat'):
            out.append(n)
        for f in n._fields:
            walk(getattr(n, f))
    walk(root)
    return out


def first_difference(a, b, path='root'):
    """Human-readable location of the first difference between two canonical trees."""
    if type(a) != type(b):
        return '%s: %r vs %r' % (path, _short(a), _short(b))
    if isinstance(a, (list, tuple)):
        if len(a) != len(b):
            for i, (x, y) in enumerate(zip(a, b)):
                if x != y:
                    return first_difference(x, y, '%s[%d]' % (path, i))
            return '%s: length %d vs %d (%r vs %r)' % (path, len(a), len(b), _short(a), _short(b))
        for i, (x, y) in enumerate(zip(a, b)):
            if x != y:
                return first_difference(x, y, '%s[%d]' % (path, i))
        return None
    if a != b:
        return '%s: %r vs %r' % (path, _short(a), _short(b))
    return None


def _short(x):
    s = repr(x)
    return s if len(s) < 120 else s[:117] + '...'
