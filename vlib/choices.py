"""Byte-stream "choice sequence" decoder shared by Hypothesis strategies and atheris.

One `st.binary(min_size=N, max_size=N)` draw supplies all structural choices of a case
(hundreds of interactive `data.draw` calls would cost ~100 us each).  Value 0 always
selects the first (simplest) alternative and an exhausted stream yields 0, so
Hypothesis' byte shrinking shrinks the decoded structure.
"""
import hashlib


class Choices:
    __slots__ = ('d', 'i', 'overrun')

    def __init__(self, data):
        self.d = bytes(data)
        self.i = 0
        self.overrun = 0

    def byte(self):
        if self.i < len(self.d):
            v = self.d[self.i]
            self.i += 1
            return v
        self.overrun += 1
        return 0

    def below(self, n):
        """An integer in [0, n)."""
        if n <= 1:
            return 0
        if n <= 256:
            return self.byte() % n
        if n <= 65536:
            return ((self.byte() << 8) | self.byte()) % n
        v = 0
        for _ in range(4):
            v = (v << 8) | self.byte()
        return v % n

    def between(self, lo, hi):
        return lo + self.below(hi - lo + 1)

    def chance(self, num, den=256):
        """True with probability ~num/den; 0 byte -> False."""
        return (self.byte() % den) >= (den - num) if num < den else True

    def pick(self, seq):
        return seq[self.below(len(seq))]

    def weighted(self, pairs):
        """pairs: [(weight, item), ...]; first item is the simplest."""
        total = sum(w for w, _ in pairs)
        v = self.below(total)
        for w, item in pairs:
            if v < w:
                return item
            v -= w
        return pairs[-1][1]

    def take(self, n):
        out = bytes(self.byte() for _ in range(n))
        return out

    def remaining(self):
        return max(0, len(self.d) - self.i)


def expand(seed, n):
    """Deterministic expansion of a (Hypothesis-drawn) seed into n pseudo-random bytes."""
    return hashlib.shake_256(bytes(seed)).digest(n)
