"""Token atoms and separators for lexer-level generation (C06/C07) and adjacency tables."""

KEYWORDS = [b'and', b'break', b'do', b'else', b'elseif', b'end', b'false', b'for', b'function', b'goto', b'if',
            b'in', b'local', b'nil', b'not', b'or', b'repeat', b'return', b'then', b'true', b'until', b'while']

SYMBOLS = [b'+=', b'-=', b'*=', b'/=', b'%=', b'..=', b'==', b'~=', b'!=', b'<=', b'>=', b'<<>', b'>>>', b'>><',
           b'<<', b'>>', b'^^', b'...', b'..', b'.', b'&', b'|', b'~', b'\\', b'+', b'-', b'*', b'/', b'%', b'^',
           b'#', b'@', b'$', b'<', b'>', b'=', b'(', b')', b'{', b'}', b'[', b']', b';', b':', b',']

NAMES_PLAIN = [b'a', b'x', b'foo', b'_', b'_x9', b'Z', b'player_1', b'b2']
NAMES_KW = [b'endx', b'_if', b'nilly', b'android', b'do_', b'format', b'notes', b'xor', b'iff', b'ends', b'forx',
            b'inx', b'returns', b'e', b'e5', b'x0b1', b'p',
            # reserved or special in neighbouring dialects, ordinary names here
            b'_ENV', b'continue']
NAMES_GLYPH = [b'\x8e', b'\x97x', b'x\x83', b'\x80\xff', b'end\x8b', b'\x8bend', b'in\x80', b'or\xff', b'_\x99_',
               b'do\x91if', b'\xe3\x81']
# glyph identifiers whose bytes coincide with byte-order marks of Unicode text files (P8SCII code is not Unicode)
NAMES_SIGNATURE = [b'\xef\xbb\xbf', b'\xef\xbb\xbfx', b'\xff\xfe', b'\xfe\xffq']
NAMES = NAMES_PLAIN + NAMES_KW + NAMES_GLYPH + NAMES_SIGNATURE + [b'?']

NUM_DEC = [b'0', b'1', b'42', b'007', b'65535', b'32767']
NUM_FRAC = [b'1.5', b'0.25', b'5.', b'.5', b'.125', b'10.0', b'3.14159', b'0.00000000000000000001', b'1.00000000000000000000005']
NUM_EXP = [b'1e3', b'1E3', b'2e-2', b'2E-2', b'1e+2', b'1E+2', b'1.5e2', b'.5e1', b'5.e1', b'1e0']
NUM_HEX = [b'0x0', b'0xff', b'0XFF', b'0xAbC', b'0x7fff', b'0x1f.8', b'0X1F.8', b'0x.8', b'0x.f', b'0x0.0001',
           b'0x.00000000000000008', b'0x1.00000000000000000001', b'0x.ffffffffffffffffffff']
NUM_BIN = [b'0b0', b'0b1', b'0B1', b'0b1010', b'0b1.1', b'0B10.01', b'0b.1', b'0b.01',
           b'0b0.00000000000000001', b'0B1.10000000000000011', b'0b.000000000000000000001', b'0b1111111111111111.1111111111111111']
# numerals past what a double's exponent holds when integer and fraction digits are converted as integers
NUM_HUGE = [b'0x.' + b'0' * 255 + b'8', b'0x.' + b'f' * 256, b'0X1' + b'0' * 256, b'0b.' + b'0' * 1023 + b'1',
            b'0.' + b'0' * 400 + b'1', b'1' + b'0' * 400, b'0b1' + b'0' * 1100]
NUMBERS = NUM_DEC + NUM_FRAC + NUM_EXP + NUM_HEX + NUM_BIN + NUM_HUGE

STRINGS_DQ = [b'""', b'"s"', b'"a b"', b'"it\'s"', b'"\\""', b'"\\\\"', b'"\\n\\t"', b'"\x8e\x97"', b'"--x"', b'"//x"',
              b'"]]"', b'"\\65"', b'"\\065"', b'"\\0"', b'"\\0001"', b'"\\10x"', b'"\\255"', b'"\\x41"', b'"\\x4a9"',
              b'"a\\z  b"', b'"\\*\\#\\-\\|\\+\\^"', b'"\\a\\b\\f\\r\\v"', b'"\\\nx"', b'"\\\r\nx"', b'"\x01\x7f"',
              b'"\\14\\15"', b'"\\0145"', b'"\t"']
STRINGS_SQ = [b"''", b"'s'", b"'\"'", b"'\\''", b"'a\\65b'", b"'\\x41'", b"'\x8b'", b"'\\\nq'"]
STRINGS_LONG = [b'[[]]', b'[[s]]', b'[[a\nb]]', b'[[\nx]]', b'[[\r\nx]]', b'[=[]]]=]', b'[==[a]=]b]==]', b'[[--x]]',
                b'[[ "q" ]]', b'[=[\n]=]', b'[[a \t\n  b\n\nc ]]', b'[[x\r\n y]]', b'[[\\n]]', b'[===[x]===]', b'[[a]b]]']
STRINGS = STRINGS_DQ + STRINGS_SQ + STRINGS_LONG

LABELS = [b'::a::', b'::top_1::', b'::\x8e::', b'::endx::']

COMMENTS_LINE = [b'--', b'--c', b'-- c d', b'--[x', b'--[=x', b'//', b'//c', b'// c "s"', b'--\x8e', b'--[ [x]]',
                 b'--]]', b'---', b'-- [[x]]']
COMMENTS_LONG = [b'--[[]]', b'--[[c]]', b'--[[c\nd]]', b'--[=[c]]d]=]', b'--[==[\nc\n]==]', b'--[[ "x ]]', b'--[[c  \n\t d \n]]', b'--[[ a\r\n b ]]',
                 b'--[[--]]']

SEPS = [b'', b' ', b'', b'\n', b'  ', b'\t', b'\r\n', b' \n ', b'\n\n', b' \t ']


def atom(ch):
    """One atom from the choice stream: (bytes, class)."""
    k = ch.below(16)
    if k <= 2:
        return ch.pick(NAMES), 'name'
    if k <= 4:
        return ch.pick(SYMBOLS), 'symbol'
    if k <= 6:
        return ch.pick(NUMBERS), 'number'
    if k == 7:
        return ch.pick(KEYWORDS), 'keyword'
    if k <= 9:
        return ch.pick(STRINGS), 'string'
    if k == 10:
        return ch.pick(LABELS), 'label'
    if k == 11:
        return ch.pick(COMMENTS_LONG), 'comment_long'
    if k == 12:
        return ch.pick(COMMENTS_LINE) + ch.pick([b'\n', b'\r\n']), 'comment_line'
    if k == 13:
        return ch.pick(SYMBOLS[:20]), 'symbol'
    if k == 14:
        return ch.pick(NAMES_GLYPH + NAMES_KW + NAMES_SIGNATURE), 'name'
    return ch.pick(NUM_EXP + NUM_HEX + NUM_BIN), 'number'


def soup(ch, max_atoms=24):
    n = 1 + ch.below(max_atoms)
    parts = []
    classes = []
    for _ in range(n):
        a, cls = atom(ch)
        parts.append(a)
        classes.append(cls)
        parts.append(ch.pick(SEPS))
    return b''.join(parts), classes


def representatives():
    """One or more representative atoms per class for the ordered-pair table."""
    reps = []
    for s in SYMBOLS:
        reps.append((s, 'sym:' + s.decode()))
    for grp, name in ((NAMES_PLAIN[:2], 'name'), (NAMES_KW[:3] + [b'e', b'e5', b'p'], 'name_kw'),
                      (NAMES_GLYPH[:4] + [b'end\x8b', b'\x8bend'] + NAMES_SIGNATURE[:3], 'name_glyph'), ([b'?'], 'qmark'),
                      (KEYWORDS, 'keyword'), (NUM_DEC[:2], 'num_dec'), ([b'5.', b'1.5'], 'num_frac'),
                      ([b'.5'], 'num_leading_dot'), (NUM_EXP[:6], 'num_exp'), (NUM_HEX[:6], 'num_hex'),
                      (NUM_BIN[:5], 'num_bin'), (STRINGS_DQ[:3], 'str_dq'), (STRINGS_SQ[:2], 'str_sq'),
                      (STRINGS_LONG[:3] + [b'[=[x]=]'], 'str_long'), (LABELS[:2], 'label'),
                      (COMMENTS_LONG[:3] + [b'--[=[c]=]'], 'comment_long')):
        for a in grp:
            reps.append((a, name))
    return reps


# ---------------------------------------------------------------------------------------
# string literal generator: every escape form next to every kind of follower
# ---------------------------------------------------------------------------------------

_SIMPLE_ESC = [b'\\n', b'\\t', b'\\a', b'\\b', b'\\f', b'\\r', b'\\v', b'\\\\', b'\\"', b"\\'",
               b'\\*', b'\\#', b'\\-', b'\\|', b'\\+', b'\\^']
_DEC_VALUES = [0, 1, 2, 6, 7, 9, 10, 13, 14, 15, 16, 31, 32, 34, 39, 48, 57, 65, 92, 99, 100, 127, 128, 200, 255]
_FOLLOW = [b'0', b'1', b'9', b'a', b'f', b'F', b'x', b'z', b' ', b'"', b"'", b'n', b'\\\\', b'']


def string_piece(ch, quote, allow_z=True):
    k = ch.below(14)
    if k <= 3:
        b = ch.byte()
        if b in (quote, 0x5c, 0x0a, 0x0d):
            b = 0x71
        return bytes((b,))
    if k == 4:
        return bytes((ch.pick([0x00, 0x01, 0x06, 0x07, 0x0e, 0x0f, 0x1f, 0x7f, 0x80, 0xff, 0x09, 0x0b]),))
    if k <= 6:
        return ch.pick(_SIMPLE_ESC)
    if k <= 9:
        v = ch.pick(_DEC_VALUES)
        width = 1 + ch.below(3)
        return b'\\' + str(v).zfill(width).encode() + ch.pick(_FOLLOW)
    if k == 10:
        return b'\\x' + ch.pick([b'00', b'0a', b'41', b'7F', b'80', b'ff', b'5c', b'22', b'0e']) + ch.pick(_FOLLOW)
    if k == 11:
        return b'\\' + ch.pick([b'\n', b'\r\n']) + ch.pick([b'', b' ', b'x'])
    if k == 12 and allow_z:
        return b'\\z' + ch.pick([b'', b' ', b'  \t', b'\n  ', b' \r\n\t']) + ch.pick([b'x', b'1', b''])
    return ch.pick([b'--', b'//', b'[[', b']]', b'end', b'#include x.lua', b'__lua__', b'?'])


def gen_string(ch, allow_z=True):
    """Source text of one string literal (quoted or long-bracket) built from pieces."""
    if ch.below(5) == 0:
        lvl = ch.below(4)
        pieces = []
        if ch.chance(90):
            pieces.append(ch.pick([b'\n', b'\r\n']))
        for _ in range(ch.below(6)):
            k = ch.below(8)
            if k <= 2:
                pieces.append(bytes((ch.pick(b'abc xyz019_"\'\\-/['),)) * (1 + ch.below(3)))
            elif k == 3:
                pieces.append(ch.pick([b'\n', b'\r\n', b'\n\n', b' \n', b'\t']))
            elif k == 4:
                pieces.append(ch.pick([b']', b']]', b']=]', b']==]', b'[[', b'[=[', b']=', b'=]']))
            elif k == 5:
                pieces.append(bytes((0x80 + ch.below(0x80),)))
            elif k == 6:
                pieces.append(ch.pick([b'\\n', b'\\', b'\\z', b'--', b'--[[', b'//']))
            else:
                pieces.append(bytes((1 + ch.below(31),)).replace(b'\r', b'\x0b'))
        return b'[' + b'=' * lvl + b'[' + b''.join(pieces) + b']' + b'=' * lvl + b']'
    q = ch.pick(b'"\'')
    body = b''.join(string_piece(ch, q, allow_z) for _ in range(ch.below(7)))
    return bytes((q,)) + body + bytes((q,))


def string_soup(ch, allow_z=True):
    """A few statements/soup atoms around generated string literals."""
    parts = []
    for _ in range(1 + ch.below(5)):
        k = ch.below(6)
        s = gen_string(ch, allow_z)
        if k == 0:
            parts.append(b'x=' + s)
        elif k == 1:
            parts.append(b'f' + s)
        elif k == 2:
            parts.append(b't={' + s + b',[' + gen_string(ch, allow_z) + b']=1}')
        elif k == 3:
            parts.append(b'?' + s)
        elif k == 4:
            parts.append(b'a=' + s + b'..' + gen_string(ch, allow_z))
        else:
            parts.append(b'print(' + s + b')')
        parts.append(ch.pick([b'\n', b'\r\n', b' ', b'\n\n', b' -- c\n', b';']))
    src = b''.join(parts)
    if ch.chance(60):
        src = src.rstrip(b'\r\n ')
    return src


# ---------------------------------------------------------------------------------------
# character-level soup: lexically interesting characters in arbitrary order
# ---------------------------------------------------------------------------------------

_CHARS = (b'--[[]]==..  \n\n\t"\'\\\\' + b'0123456789abefxXzpEnrt' + b'+-*/%^#~!<>=(){};:,@$&|?_' +
          b'\x80\x8e\xff' + b'\r')


def char_soup(ch, max_len=40):
    n = 1 + ch.below(max_len)
    out = bytearray()
    for _ in range(n):
        k = ch.below(10)
        if k == 0:
            out += ch.pick([b'--[[', b']]', b'[[', b'[=[', b']=]', b'\r\n', b'//', b'::', b'...', b'..=', b'>>>',
                            b'0x', b'0b', b'1e', b'\\z', b'\\x4', b'\\\n', b'end', b'if', b'not', b'and'])
        else:
            out.append(ch.pick(_CHARS))
    return bytes(out)
