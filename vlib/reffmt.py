"""REFFMT - reference codecs for the PICO-8 cart formats, written from the format
descriptions (P8FileFormat, P8PNGFileFormat, memory map).  Shares no code with picotool.

Memory map: gfx 0x0000, map 0x2000, gff 0x3000, music 0x3100, sfx 0x3200, code 0x4300,
version byte 0x8000.
"""
from . import refpng

HEADER = b'pico-8 cartridge // http://www.pico-8.com\n'
GFX, MAP, GFF, MUSIC, SFX, CODE, VERSION = 0x0, 0x2000, 0x3000, 0x3100, 0x3200, 0x4300, 0x8000
HEXD = b'0123456789abcdef'

# the 59-entry literal table of the :c: format (index 0 is the escape marker)
C_TABLE = b'\x00\n 0123456789abcdefghijklmnopqrstuvwxyz!#%(){}[]<>+=/*:;.,~_'
assert len(C_TABLE) == 60
SHIM1 = b'if(_update60)_update=function()_update60()_update60()end'
SHIM2 = b'if(_update60)_update=function()_update60()_update_buttons()_update60()end'


class FormatError(Exception):
    pass


# ---------------------------------------------------------------- .p8 section text codecs

def _hex(bs):
    return b''.join(bytes((HEXD[b >> 4], HEXD[b & 15])) for b in bs)


def enc_gfx(data):
    """8192 bytes -> 128 lines of 128 pixel digits in screen order."""
    lines = []
    for y in range(len(data) // 64):
        row = bytearray()
        for x in range(128):
            b = data[y * 64 + x // 2]
            row.append(HEXD[(b & 15) if x % 2 == 0 else (b >> 4)])
        lines.append(bytes(row) + b'\n')
    return lines


def _digit(c):
    v = HEXD.find(bytes((c,)).lower())
    if v < 0:
        raise FormatError('bad hex digit %r' % c)
    return v


def dec_gfx(lines):
    out = bytearray()
    for ln in lines:
        ln = ln.rstrip(b'\r\n')
        if len(ln) != 128:
            continue
        for x in range(0, 128, 2):
            out.append(_digit(ln[x]) | (_digit(ln[x + 1]) << 4))
    return bytes(out)


def enc_plain(data, per_line):
    return [_hex(data[i:i + per_line]) + b'\n' for i in range(0, len(data), per_line)]


def dec_plain(lines):
    out = bytearray()
    for ln in lines:
        ln = ln.strip()
        for i in range(0, len(ln) - 1, 2):
            out.append((_digit(ln[i]) << 4) | _digit(ln[i + 1]))
    return bytes(out)


def note_fields(w):
    """16-bit little-endian note word -> (pitch, waveform 0-15, volume, effect)."""
    return (w & 63, ((w >> 6) & 7) | (((w >> 15) & 1) << 3), (w >> 9) & 7, (w >> 12) & 7)


def note_word(pitch, waveform, volume, effect):
    return (pitch & 63) | ((waveform & 7) << 6) | ((volume & 7) << 9) | ((effect & 7) << 12) | (((waveform >> 3) & 1) << 15)


def enc_sfx(data):
    lines = []
    for s in range(len(data) // 68):
        blk = data[s * 68:(s + 1) * 68]
        row = bytearray(_hex(blk[64:68]))
        for n in range(32):
            w = blk[2 * n] | (blk[2 * n + 1] << 8)
            p, wf, v, e = note_fields(w)
            row += bytes((HEXD[p >> 4], HEXD[p & 15], HEXD[wf], HEXD[v], HEXD[e]))
        lines.append(bytes(row) + b'\n')
    return lines


def dec_sfx(lines):
    out = bytearray()
    for ln in lines:
        ln = ln.rstrip(b'\r\n')
        if len(ln) != 168:
            continue
        blk = bytearray(68)
        for k in range(4):
            blk[64 + k] = (_digit(ln[2 * k]) << 4) | _digit(ln[2 * k + 1])
        for n in range(32):
            f = ln[8 + 5 * n:13 + 5 * n]
            w = note_word((_digit(f[0]) << 4) | _digit(f[1]), _digit(f[2]), _digit(f[3]), _digit(f[4]))
            blk[2 * n] = w & 255
            blk[2 * n + 1] = w >> 8
        out += blk
    return bytes(out)


def enc_music(data):
    lines = []
    for i in range(0, len(data), 4):
        b = data[i:i + 4]
        flags = (b[0] >> 7) | ((b[1] >> 7) << 1) | ((b[2] >> 7) << 2)
        lines.append(_hex(bytes((flags,))) + b' ' + _hex(bytes(x & 0x7f for x in b)) + b'\n')
    return lines


def dec_music(lines):
    out = bytearray()
    for ln in lines:
        ln = ln.strip()
        if b' ' not in ln:
            continue
        f, c = ln.split(b' ', 1)
        flags = (_digit(f[0]) << 4) | _digit(f[1])
        ch = [(_digit(c[2 * k]) << 4) | _digit(c[2 * k + 1]) for k in range(4)]
        out += bytes((ch[0] | ((flags & 1) << 7), ch[1] | (((flags >> 1) & 1) << 7),
                      ch[2] | (((flags >> 2) & 1) << 7), ch[3]))
    return bytes(out)


def music_mask(data):
    """The .p8 music line has no place for bit 7 of each pattern's 4th channel byte."""
    b = bytearray(data)
    for i in range(3, len(b), 4):
        b[i] &= 0x7f
    return bytes(b)


# ---------------------------------------------------------------- P8SCII text (table is data)

def _p8scii_tables():
    from pico8.lua import lua as pl
    spell = [c.p8string for c in pl.P8SCII_CHARSET]
    rev = {}
    for i, s in enumerate(spell):
        rev.setdefault(s, i)
    return spell, rev, max(len(s) for s in spell)


def p8scii_to_text(bs):
    spell, _rev, _m = _p8scii_tables()
    return ''.join(spell[b] for b in bs)


def text_to_p8scii(s):
    """Greedy longest-match decode using only the table *data* (trusted; C15 checks it)."""
    _spell, rev, mx = _p8scii_tables()
    out = bytearray()
    i = 0
    while i < len(s):
        for n in range(mx, 0, -1):
            v = rev.get(s[i:i + n])
            if v is not None:
                out.append(v)
                i += n
                break
        else:
            raise FormatError('no P8SCII spelling at %r' % s[i:i + 4])
    return bytes(out)


# ---------------------------------------------------------------- .p8 reader / writer

def read_p8(data):
    """Parse .p8 bytes -> dict(version, code (P8SCII bytes), sections {name: [lines]},
    gfx, map, gff, music, sfx, label (bytes or None)).  Independent of picotool's reader."""
    lines = data.split(b'\n')
    if lines and lines[-1] == b'':
        lines.pop()
    lines = [ln + b'\n' for ln in lines]
    if len(lines) < 2 or lines[0] != HEADER:
        raise FormatError('bad header line')
    v = lines[1].strip().split()
    if len(v) < 2 or v[0] != b'version' or not v[1].isdigit():
        raise FormatError('bad version line')
    res = {'version': int(v[1]), 'sections': {}, 'order': []}
    cur = None
    for ln in lines[2:]:
        s = ln.rstrip(b'\n')
        if len(s) >= 5 and s.startswith(b'__') and s.endswith(b'__') and s[2:-2].replace(b'_', b'a').isalnum():
            cur = s[2:-2].decode('ascii')
            res['sections'][cur] = []
            res['order'].append(cur)
        elif cur is not None:
            res['sections'][cur].append(ln)
    sec = res['sections']
    res['code'] = text_to_p8scii(b''.join(sec.get('lua', [])).decode('utf-8'))
    res['gfx'] = dec_gfx(sec.get('gfx', []))
    res['label'] = dec_gfx(sec['label']) if 'label' in sec else None
    res['gff'] = dec_plain(sec.get('gff', []))
    res['map'] = dec_plain(sec.get('map', []))
    res['sfx'] = dec_sfx(sec.get('sfx', []))
    res['music'] = dec_music(sec.get('music', []))
    return res


EMPTY_MUSIC_LINE = b'00 41424344\n'


def _elide(lines, empty_line):
    """Drop trailing rows that are empty, as PICO-8 (0.1.12+) does when it saves a .p8."""
    lines = list(lines)
    while lines and lines[-1] == empty_line:
        lines.pop()
    return lines


def write_p8(version, code, mem, label=None, elide=False, elide_sfx=False):
    """Reference .p8 writer.  elide=False: all rows of all sections (older PICO-8); elide=True: trailing empty
    rows of gfx/gff/map/music are omitted and a section left without rows is omitted altogether (newer PICO-8);
    elide='headers': likewise, but the header line of a section left without rows stays (hand-edited carts).
    elide_sfx: trailing sfx patterns nobody edited (no notes, speed 16) are omitted too, all but the first row."""
    keep_headers = elide == 'headers'
    out = [HEADER, b'version %d\n' % version, b'__lua__\n']
    text = p8scii_to_text(code).encode('utf-8')
    out.append(text if (text.endswith(b'\n') or not text) else text + b'\n')
    gfx = enc_gfx(mem[GFX:MAP])
    gff = enc_plain(mem[GFF:MUSIC], 128)
    mp = enc_plain(mem[MAP:GFF], 128)
    music = enc_music(mem[MUSIC:SFX])
    if elide:
        gfx = _elide(gfx, b'0' * 128 + b'\n')
        gff = _elide(gff, b'0' * 256 + b'\n')
        mp = _elide(mp, b'0' * 256 + b'\n')
        music = _elide(music, EMPTY_MUSIC_LINE)
    if gfx or not elide or keep_headers:
        out.append(b'__gfx__\n')
        out += gfx
    if label is not None:
        out.append(b'__label__\n')
        out += enc_gfx(label)
    if gff or not elide or keep_headers:
        out.append(b'__gff__\n')
        out += gff
    if mp or not elide or keep_headers:
        out.append(b'__map__\n')
        out += mp
    out.append(b'__sfx__\n')
    sfx = enc_sfx(mem[SFX:CODE])
    if elide_sfx:
        sfx = sfx[:1] + _elide(sfx[1:], enc_sfx(bytes(64) + b'\x00\x10\x00\x00')[0])
    out += sfx
    if music or not elide or keep_headers:
        out.append(b'__music__\n')
        out += music
    out.append(b'\n')
    return b''.join(out)


# ---------------------------------------------------------------- .p8.png steganography

def stego_extract(rows, planes=4):
    """PNG rows -> list of cart bytes, one per pixel: A7:6 R5:4 G3:2 B1:0 (low 2 bits each)."""
    out = bytearray()
    for r in rows:
        for x in range(0, len(r), planes):
            a = r[x + 3] if planes == 4 else 0
            out.append(((a & 3) << 6) | ((r[x] & 3) << 4) | ((r[x + 1] & 3) << 2) | (r[x + 2] & 3))
    return bytes(out)


def stego_embed(rows, cart, planes=4):
    """Return new rows with `cart` bytes stored in the low 2 bits (pixels past len(cart) kept)."""
    out = []
    i = 0
    for r in rows:
        nr = bytearray(r)
        for x in range(0, len(r), planes):
            if i < len(cart):
                b = cart[i]
                nr[x] = (r[x] & 0xfc) | ((b >> 4) & 3)
                nr[x + 1] = (r[x + 1] & 0xfc) | ((b >> 2) & 3)
                nr[x + 2] = (r[x + 2] & 0xfc) | (b & 3)
                if planes == 4:
                    nr[x + 3] = (r[x + 3] & 0xfc) | ((b >> 6) & 3)
            i += 1
        out.append(bytes(nr))
    return out


def read_p8png(data):
    """PNG bytes -> dict(width, height, planes, rows, cart (bytes per pixel), regions, version,
    code (bytes), code_kind)."""
    w, h, planes, rows = refpng.decode(data)
    cart = stego_extract(rows, planes)
    res = {'width': w, 'height': h, 'planes': planes, 'rows': rows, 'cart': cart}
    if len(cart) <= VERSION:
        raise FormatError('image too small for a cart: %d pixels' % len(cart))
    res['mem'] = cart[0:CODE]
    res['version'] = cart[VERSION]
    kind, code = decode_code_area(cart[CODE:VERSION], res['version'])
    res['code_kind'] = kind
    res['code'] = code
    return res


def write_p8png(label_rows, mem, code_area, version, planes=4, png_kw=None):
    """png_kw: how the PNG itself is encoded (refpng.encode: interlace, filters, idat_split, ancillary)."""
    cart = bytes(mem) + bytes(code_area) + bytes(0x3d00 - len(code_area)) + bytes((version,))
    rows = stego_embed(label_rows, cart, planes)
    return refpng.encode(len(label_rows[0]) // planes, len(label_rows), rows, planes, **(png_kw or {}))


def png_flavour(sel):
    """sel: 4 bytes -> (refpng.encode keyword arguments, description).  PICO-8 and picotool write plain PNGs; carts that
    went through an image tool (optimisers, editors used for labels) come interlaced, filtered, with several IDAT
    chunks or ancillary chunks."""
    import struct
    anc = ((b'pHYs', struct.pack('>IIB', 2835, 2835, 1)), (b'gAMA', struct.pack('>I', 45455)),
           (b'tEXt', b'Software\x00tool'), (b'tIME', struct.pack('>HBBBBB', 2021, 2, 3, 4, 5, 6)), (b'sRGB', b'\x00'))
    kw, names = {}, []
    if sel[0] % 3 == 0:
        kw['interlace'] = True
        names.append('interlaced')
    if sel[1] % 3 == 0:
        kw['filters'] = [(1,), (2,), (3,), (4,), (0, 1, 2, 3, 4)][sel[1] // 3 % 5]
        names.append('filtered')
    if sel[2] % 4 == 0:
        kw['idat_split'] = 4096 + 97 * (sel[2] // 4)
        names.append('split_idat')
    if sel[3] % 3 == 0:
        kw['ancillary'] = [anc[(sel[3] // 3) % len(anc)]]
        names.append('ancillary')
    return kw, '+'.join(names) or 'plain'


# ---------------------------------------------------------------- code area / :c: compression

def parse_stream(stream, limit=None):
    """Parse a :c: stream (bytes after the 8-byte header) into ops until `limit` output bytes
    are produced (or the stream ends).  Ops: ('lit', byte) | ('esc', byte) | ('blk', offset, length).
    Returns (ops, consumed, produced)."""
    ops = []
    i = 0
    produced = 0
    while i < len(stream) and (limit is None or produced < limit):
        b = stream[i]
        if b == 0:
            if i + 1 >= len(stream):
                raise FormatError('escape marker at end of stream')
            ops.append(('esc', stream[i + 1]))
            i += 2
            produced += 1
        elif b < 60:
            ops.append(('lit', C_TABLE[b]))
            i += 1
            produced += 1
        else:
            if i + 1 >= len(stream):
                raise FormatError('block reference cut at end of stream')
            n = stream[i + 1]
            ops.append(('blk', (b - 60) * 16 + (n & 15), (n >> 4) + 2))
            i += 2
            produced += (n >> 4) + 2
    return ops, i, produced


def run_ops(ops, strict=True):
    """Reference bytewise decoder for parsed ops."""
    out = bytearray()
    for op in ops:
        if op[0] in ('lit', 'esc'):
            out.append(op[1])
        else:
            _k, off, ln = op
            if off < 1 or off > len(out):
                raise FormatError('block offset %d outside the %d bytes produced' % (off, len(out)))
            for _ in range(ln):
                out.append(out[-off])
    return bytes(out)


def strip_shim(code):
    """What PICO-8 (and any reader) removes: the 0.1.7 compatibility suffix (+ its newline)."""
    for shim in (SHIM1, SHIM2):
        if code.endswith(shim):
            code = code[:-len(shim)]
            if code.endswith(b'\n'):
                code = code[:-1]
    return code


def decode_code_area(area, version):
    """0x3d00-byte code area -> (kind, code bytes) by the format description."""
    area = bytes(area)
    if version > 0 and area[:4] == b':c:\x00':
        ln = (area[4] << 8) | area[5]
        ops, _consumed, _produced = parse_stream(area[8:], ln)
        out = run_ops(ops, strict=False)[:ln]
        return 'compressed', out
    end = area.find(b'\x00')
    if end < 0:
        end = len(area)
    return 'raw', area[:end]


def encode_stream(ops):
    out = bytearray()
    for op in ops:
        if op[0] == 'lit':
            idx = C_TABLE.index(bytes((op[1],)))
            assert idx > 0
            out.append(idx)
        elif op[0] == 'esc':
            out += bytes((0, op[1]))
        else:
            _k, off, ln = op
            out += bytes((60 + off // 16, (off % 16) | ((ln - 2) << 4)))
    return bytes(out)


def compress_literals(code):
    """A valid (if not small) :c: code area for `code`: header + one literal per byte, no back-references."""
    ops = [('lit', b) if (b != 0 and bytes((b,)) in C_TABLE[1:]) else ('esc', b) for b in code]
    return b':c:\x00' + bytes((len(code) >> 8, len(code) & 255)) + b'\x00\x00' + encode_stream(ops)


def read_written(raw, case, what='the cart written by picotool', png=False):
    """read_p8 / read_p8png for files picotool wrote: a file the format description cannot read is a violation of
    the check that looks at it, not a harness error."""
    from vlib.runner import Violation
    from vlib import refpng
    try:
        return read_p8png(raw) if png else read_p8(raw)
    except (FormatError, refpng.PNGError, UnicodeDecodeError) as e:
        raise Violation('%s is not readable by the reference %s reader: %s' % (what, '.p8.png' if png else '.p8', e),
                        case, 'unreadable-output')
