"""REFLEX - reference lexer for the PICO-8 Lua dialect.

Written from the Lua 5.2 reference manual section 3.1 / llex.c behaviour plus the PICO-8
extensions picotool documents (`!=`, `//` comments, `\\` integer division, `^^`, `<<>`, `>>>`, `>><`,
`@ $ %` unary peeks, compound assignment, `?` print shorthand, 0b literals, P8SCII control escapes,
glyph identifiers).  Shares no code and no regular expression with pico8.lua.lexer.

lex(src) -> list of Tok, or raises Malformed(reason, offset) for text outside the dialect's lexical
grammar (such text is outside every property's domain - it is never a violation by itself).
"""
import re
from fractions import Fraction

KEYWORDS = frozenset([
    b'and', b'break', b'do', b'else', b'elseif', b'end', b'false', b'for', b'function', b'goto', b'if',
    b'in', b'local', b'nil', b'not', b'or', b'repeat', b'return', b'then', b'true', b'until', b'while'])

# longest first within each starting character
SYMBOLS = sorted([
    b'+=', b'-=', b'*=', b'/=', b'%=', b'..=', b'==', b'~=', b'!=', b'<=', b'>=', b'<<>', b'>>>', b'>><',
    b'<<', b'>>', b'^^', b'...', b'..', b'.', b'&', b'|', b'~', b'\\', b'+', b'-', b'*', b'/', b'%', b'^',
    b'#', b'@', b'$', b'<', b'>', b'=', b'(', b')', b'{', b'}', b'[', b']', b';', b':', b','],
    key=lambda s: -len(s))

SIGNIFICANT = ('keyword', 'name', 'number', 'string', 'symbol', 'label')

_ESC = {ord('a'): 7, ord('b'): 8, ord('f'): 12, ord('n'): 10, ord('r'): 13, ord('t'): 9, ord('v'): 11,
        ord('\\'): 0x5c, ord('"'): 0x22, ord("'"): 0x27,
        ord('*'): 1, ord('#'): 2, ord('-'): 3, ord('|'): 4, ord('+'): 5, ord('^'): 6}

_DIG = b'0123456789'
_HEX = b'0123456789abcdefABCDEF'


class Malformed(Exception):
    def __init__(self, reason, offset):
        super().__init__('%s at offset %d' % (reason, offset))
        self.reason = reason
        self.offset = offset


class Tok:
    __slots__ = ('kind', 'start', 'end', 'line', 'col', 'text', 'value', 'quote')

    def __init__(self, kind, start, end, line, col, text, value=None, quote=None):
        self.kind = kind
        self.start = start
        self.end = end
        self.line = line
        self.col = col
        self.text = text
        self.value = value
        self.quote = quote

    def __repr__(self):
        return 'Tok(%s %r @%d L%d:%d)' % (self.kind, self.text, self.start, self.line, self.col)

    def key(self):
        """Comparison key for 'same token' modulo spelling of numbers/strings."""
        if self.kind == 'number':
            return ('number', self.value)
        if self.kind == 'string':
            return ('string', self.value)
        return (self.kind, self.text)


def is_name_start(c):
    return (0x41 <= c <= 0x5a) or (0x61 <= c <= 0x7a) or c == 0x5f or c >= 0x80


def is_name_char(c):
    return is_name_start(c) or (0x30 <= c <= 0x39)


def _long_open(src, i):
    """If src[i:] starts a long bracket '[' '='* '[' return its level, else -1."""
    if i >= len(src) or src[i] != 0x5b:
        return -1
    j = i + 1
    while j < len(src) and src[j] == 0x3d:
        j += 1
    if j < len(src) and src[j] == 0x5b:
        return j - i - 1
    return -1


def _long_close(src, i, level):
    """Index just past the closing bracket of `level` searching from i, or -1."""
    close = b']' + b'=' * level + b']'
    k = src.find(close, i)
    return -1 if k < 0 else k + len(close)


def numeral_value(text):
    """Exact value of a numeral of the forms the dialect lists, or None if not of those forms."""
    t = text
    low = t.lower()
    if low.startswith(b'0x') or low.startswith(b'0b'):
        base = 16 if low[1:2] == b'x' else 2
        digs = _HEX if base == 16 else b'01'
        body = t[2:]
        if body.count(b'.') > 1 or body in (b'', b'.'):
            return None
        ip, _, fp = body.partition(b'.')
        if any(c not in digs for c in ip + fp):
            return None
        if b'.' in body and fp == b'':
            return None   # '0x1f.' : valid Lua, but not one of the listed forms
        v = Fraction(int(ip, base) if ip else 0)
        if fp:
            v += Fraction(int(fp, base), base ** len(fp))
        return v
    mant, exp = t, None
    for k, c in enumerate(t):
        if c in b'eE':
            mant, exp = t[:k], t[k + 1:]
            break
    if mant.count(b'.') > 1 or mant in (b'', b'.'):
        return None
    ip, _, fp = mant.partition(b'.')
    if any(c not in _DIG for c in ip + fp):
        return None
    v = Fraction(int(ip) if ip else 0)
    if fp:
        v += Fraction(int(fp), 10 ** len(fp))
    if exp is not None:
        sign = 1
        if exp[:1] in (b'+', b'-'):
            sign = -1 if exp[:1] == b'-' else 1
            exp = exp[1:]
        if exp == b'' or any(c not in _DIG for c in exp):
            return None
        e = sign * int(exp)
        if abs(e) > 20000:
            # beyond every float: the value is infinite, or zero (no 10 ** 10 ** 400 to compute)
            return Fraction(10) ** 20000 if (e > 0 and v != 0) else Fraction(0)
        v *= Fraction(10) ** e
    return v


def _scan_numeral(src, i):
    """The numeral run as Lua 5.2's llex.c read_numeral takes it: after the first digit (and an optional 0x), any
    run of hexadecimal digits and '.', where an exponent marker (e/E, or p/P after 0x) may be followed by a sign.
    The run ends before any other character - so `1then` is the number 1 and the keyword then, while `1else` takes
    `1e` (an incomplete exponent) and is malformed.  PICO-8's 0b literals are not in llex.c; for them the run is
    taken greedily over letters, digits and '.', so that anything unusual is malformed rather than guessed at."""
    n = len(src)
    j = i
    hexmode = src[i] == 0x30 and i + 1 < n and src[i + 1] in b'xX'
    binmode = src[i] == 0x30 and i + 1 < n and src[i + 1] in b'bB'
    if hexmode:
        j = i + 2
    expo = b'pP' if hexmode else b'eE'
    while j < n:
        c = src[j]
        if c == 0x2e and j + 1 < n and src[j + 1] == 0x2e:
            # "N.." : picotool's dialect (its own tests lex 5..b as 5, .., b; PICO-8 counts 1..5 specially) ends the
            # numeral before a concatenation operator.  Plain Lua would call this a malformed number; either way a
            # following ".." is never part of the numeral's value.
            break
        if binmode:
            if is_name_char(c) and c < 0x80 or c == 0x2e:
                j += 1
                continue
            break
        if c in expo:
            j += 1
            if j < n and src[j] in b'+-':
                j += 1
            continue
        if c in _HEX or c == 0x2e:
            j += 1
            continue
        break
    return j


def lex(src):
    src = bytes(src)
    n = len(src)
    toks = []
    i = 0
    line = 0
    line_start = 0

    def add(kind, start, end, value=None, quote=None):
        toks.append(Tok(kind, start, end, line, start - line_start, src[start:end], value, quote))

    while i < n:
        c = src[i]
        # line ends
        if c == 0x0a or c == 0x0d:
            j = i + 2 if (c == 0x0d and i + 1 < n and src[i + 1] == 0x0a) else i + 1
            add('newline', i, j)
            i = j
            line += 1
            line_start = i
            continue
        if c == 0x20 or c == 0x09:
            j = i
            while j < n and src[j] in (0x20, 0x09):
                j += 1
            add('space', i, j)
            i = j
            continue
        # comments
        if (c == 0x2d and src[i + 1:i + 2] == b'-') or (c == 0x2f and src[i + 1:i + 2] == b'/'):
            lvl = _long_open(src, i + 2) if c == 0x2d else -1
            if lvl >= 0:
                j = _long_close(src, i + 4 + lvl, lvl)
                if j < 0:
                    raise Malformed('unterminated long comment', i)
                start_line, start_ls = line, line_start
                tok = Tok('comment', i, j, start_line, i - start_ls, src[i:j], lvl)
                toks.append(tok)
                # advance line bookkeeping across the comment
                k = i
                while k < j:
                    if src[k] == 0x0a:
                        line += 1
                        line_start = k + 1
                    elif src[k] == 0x0d and not (k + 1 < j and src[k + 1] == 0x0a):
                        line += 1
                        line_start = k + 1
                    k += 1
                i = j
                continue
            j = i
            while j < n and src[j] not in (0x0a, 0x0d):
                j += 1
            add('comment', i, j)
            i = j
            continue
        # long strings
        lvl = _long_open(src, i) if c == 0x5b else -1
        if lvl >= 0:
            body_start = i + 2 + lvl
            j = _long_close(src, body_start, lvl)
            if j < 0:
                raise Malformed('unterminated long string', i)
            body = src[body_start:j - 2 - lvl]
            # Lua 5.2 3.1: every end-of-line sequence in a long string (CR, LF, CR LF, LF CR) is a newline in the value,
            # and a line break right after the opening bracket is not part of it
            val = re.sub(br'\r\n|\n\r|\r', b'\n', body)
            if val[:1] == b'\n':
                val = val[1:]
            tok = Tok('string', i, j, line, i - line_start, src[i:j], bytes(val), b'[' + b'=' * lvl + b'[')
            toks.append(tok)
            k = i
            while k < j:
                if src[k] == 0x0a:
                    line += 1
                    line_start = k + 1
                elif src[k] == 0x0d and not (k + 1 < j and src[k + 1] == 0x0a):
                    line += 1
                    line_start = k + 1
                k += 1
            i = j
            continue
        # quoted strings
        if c == 0x22 or c == 0x27:
            j = i + 1
            out = bytearray()
            start_line, start_ls = line, line_start
            while True:
                if j >= n:
                    raise Malformed('unterminated string', i)
                d = src[j]
                if d == c:
                    j += 1
                    break
                if d == 0x0a or d == 0x0d:
                    raise Malformed('raw line break in quoted string', j)
                if d != 0x5c:
                    out.append(d)
                    j += 1
                    continue
                # escape
                if j + 1 >= n:
                    raise Malformed('unterminated string', i)
                e = src[j + 1]
                if e in _ESC:
                    out.append(_ESC[e])
                    j += 2
                elif e == 0x0a or e == 0x0d:
                    out.append(0x0a)
                    j += 2
                    if j < n and src[j] in (0x0a, 0x0d) and src[j] != e:
                        j += 1
                    line += 1
                    line_start = j
                elif 0x30 <= e <= 0x39:
                    k = j + 1
                    v = 0
                    cnt = 0
                    while k < n and cnt < 3 and 0x30 <= src[k] <= 0x39:
                        v = v * 10 + (src[k] - 0x30)
                        k += 1
                        cnt += 1
                    if v > 255:
                        raise Malformed('decimal escape too large', j)
                    out.append(v)
                    j = k
                elif e == 0x78:  # \xhh
                    h = src[j + 2:j + 4]
                    if len(h) != 2 or any(x not in _HEX for x in h):
                        raise Malformed('bad \\x escape', j)
                    out.append(int(h, 16))
                    j += 4
                elif e == 0x7a:  # \z skips following whitespace incl. line breaks
                    j += 2
                    while j < n and src[j] in (0x20, 0x09, 0x0a, 0x0d, 0x0b, 0x0c):
                        if src[j] == 0x0a or (src[j] == 0x0d and not (j + 1 < n and src[j + 1] == 0x0a)):
                            line += 1
                            line_start = j + 1
                        j += 1
                else:
                    raise Malformed('unknown escape \\%s' % chr(e), j)
            toks.append(Tok('string', i, j, start_line, i - start_ls, src[i:j], bytes(out), bytes((c,))))
            i = j
            continue
        # numerals
        if (0x30 <= c <= 0x39) or (c == 0x2e and i + 1 < n and 0x30 <= src[i + 1] <= 0x39):
            j = _scan_numeral(src, i)
            if j < n and src[j] >= 0x80:
                raise Malformed('numeral runs into a glyph', i)
            text = src[i:j]
            v = numeral_value(text)
            if v is None:
                raise Malformed('malformed number %r' % text, i)
            add('number', i, j, v)
            i = j
            continue
        # labels ::name::
        if c == 0x3a and src[i + 1:i + 2] == b':':
            j = i + 2
            while j < n and src[j] in (0x20, 0x09):      # Lua allows blanks inside ':: name ::'
                j += 1
            if j < n and is_name_start(src[j]):
                k = j
                while k < n and is_name_char(src[k]):
                    k += 1
                m = k
                while m < n and src[m] in (0x20, 0x09):
                    m += 1
                if src[m:m + 2] == b'::' and src[j:k] not in KEYWORDS:
                    # one label token either way; value = the name.  (picotool's dialect writes labels compactly;
                    # checks treat a spaced label as in-domain only for trees that parse it.)
                    add('label', i, m + 2, src[j:k])
                    i = m + 2
                    continue
            raise Malformed('"::" outside a ::label::', i)
        # names / keywords
        if is_name_start(c):
            j = i
            while j < n and is_name_char(src[j]):
                j += 1
            text = src[i:j]
            add('keyword' if text in KEYWORDS else 'name', i, j)
            i = j
            continue
        if c == 0x3f:
            add('name', i, i + 1)
            i += 1
            continue
        # symbols, longest match
        for s in SYMBOLS:
            if src.startswith(s, i):
                add('symbol', i, i + len(s))
                i += len(s)
                break
        else:
            raise Malformed('unexpected character 0x%02x' % c, i)
    return toks


def try_lex(src):
    try:
        return lex(src)
    except Malformed:
        return None


def significant(toks):
    return [t for t in toks if t.kind in SIGNIFICANT]


def picotool_token_count(toks):
    """Token count by the rule picotool's `stats` documents (for the 'count unchanged' clauses)."""
    c = 0
    for t in toks:
        if t.kind not in SIGNIFICANT:
            continue
        if t.kind == 'symbol' and t.text in (b':', b'.', b')', b']', b'}'):
            continue
        if t.kind == 'keyword' and t.text in (b'local', b'end'):
            continue
        if t.kind == 'number' and b'e' in t.text:
            c += 2
        else:
            c += 1
    return c


_SELFTEST = [
    (b'a=1', ['name', 'symbol', 'number']),
    (b'a..b', ['name', 'symbol', 'name']),
    (b'a...b', ['name', 'symbol', 'name']),
    (b'x>>>=1', ['name', 'symbol', 'symbol', 'number']),
    (b'x<<>y', ['name', 'symbol', 'name']),
    (b'x>><y', ['name', 'symbol', 'name']),
    (b'a~=b!=c', ['name', 'symbol', 'name', 'symbol', 'name']),
    (b'a..=b', ['name', 'symbol', 'name']),
    (b'0x1f.8 0b101.1 .5 5. 1e3 1E-3 1e+3', ['number'] * 7),
    (b'end\x8b endx _end', ['name', 'name', 'name']),
    (b'::lbl:: goto lbl', ['label', 'keyword', 'name']),
    (b'?"hi"', ['name', 'string']),
    (b'"a\\65\\x41\\z  b\\\nc"', ['string']),
    (b'[==[x]]y]==]', ['string']),
    (b'--[[c\nd]]x', ['comment', 'name']),
    (b'--[==[c]]d]==]x', ['comment', 'name']),
    (b'a--c\nb//d', ['name', 'comment', 'name', 'comment']),
    (b'a- -b', ['name', 'symbol', 'symbol', 'name']),
    (b't[ [[k]] ]', ['name', 'symbol', 'string', 'symbol']),
    (b'a\\b^^c', ['name', 'symbol', 'name', 'symbol', 'name']),
    (b'x=1..2 y=0x7f..s z=5. ..a', ['name', 'symbol', 'number', 'symbol', 'number', 'name', 'symbol', 'number', 'symbol', 'name',
                                   'name', 'symbol', 'number', 'symbol', 'name']),
    (b'@a $b %c', ['symbol', 'name', 'symbol', 'name', 'symbol', 'name']),
]
_SELFTEST_BAD = [b'::a b::', b'1and', b'0x', b'0xg', b'"a\nb"', b'"\\q"', b'"\\300"', b'[[x',
                 b'--[[x', b'"abc', b'a!b', b'`', b'a::b', b'1.2.3', b'0b12', b'1e', b'1e+']


def selftest():
    for src, kinds in _SELFTEST:
        got = [t.kind for t in lex(src) if t.kind in SIGNIFICANT or t.kind == 'comment']
        if got != kinds:
            raise AssertionError('REFLEX selftest: %r -> %r, expected %r' % (src, got, kinds))
    for src in _SELFTEST_BAD:
        if try_lex(src) is not None:
            raise AssertionError('REFLEX selftest: %r should be malformed' % src)
    t = lex(b'"a\\65\\x41\\z  b\\\nc"')[0]
    assert t.value == b'aAAb\nc', t.value
    assert lex(b'[==[\nx]]y]==]')[0].value == b'x]]y'
    assert lex(b'0x1f.8')[0].value == Fraction(31) + Fraction(1, 2)
    assert lex(b'0b101.1')[0].value == Fraction(11, 2)
    assert lex(b'1E-3')[0].value == Fraction(1, 1000)
    toks = lex(b'a\r\nb\n  c')
    assert [(t.line, t.col) for t in toks if t.kind == 'name'] == [(0, 0), (1, 0), (2, 2)]


selftest()
