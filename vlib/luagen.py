"""LUAGEN - generator for programs of the PICO-8 Lua dialect picotool parses.

gen_program(ch, cfg) builds a *model AST* (plain tuples) from a choice stream; render(model)
turns it into the intended token list (with nesting depth, statement starts, line-scoped ranges,
identifier roles); layout(tokens, ch, mode) produces source bytes by choosing a separator between
every two tokens under the grammar's constraints.

Model AST
  block    := [stmt]
  stmt     := ('assign', [chain], op, [exp]) | ('call', chain) | ('print', arg) | ('do', block)
            | ('while', exp, block) | ('repeat', block, exp) | ('if', [(exp, block)], block|None)
            | ('shortif', exp, block, block|None)  (else-block [] = an `else` with nothing after it)
            | ('ifdo', exp, block)  (`if (c) do ... end`) | ('fornum', name, exp, exp, exp|None, block)
            | ('forin', [name], [exp], block) | ('function', [name], name|None, body)
            | ('localfunction', name, body) | ('local', [name], [exp]|None) | ('goto', name)
            | ('label', name) | ('break',) | ('return', [exp]|None)
  body     := (params [name], dots bool, block)
  exp      := ('exp', [item])   item := ('unop', text) | ('binop', text) | operand   (source order)
  operand  := ('nil',) | ('true',) | ('false',) | ('number', text) | ('string', text) | ('dots',)
            | ('function', body) | ('table', [field]) | chain
  field    := ('pos', exp) | ('named', name, exp) | ('keyed', exp, exp)
  chain    := ('chain', head, [suffix])  head := ('name', n) | ('paren', exp)
  suffix   := ('index', exp) | ('attr', name) | ('call', args) | ('method', name, args)
  args     := ('args', [exp]) | ('tablearg', table) | ('stringarg', text)
"""
from . import reflex

BINOPS = [b'+', b'-', b'*', b'/', b'%', b'^', b'..', b'==', b'~=', b'!=', b'<', b'>', b'<=', b'>=', b'and', b'or',
          b'&', b'|', b'^^', b'<<', b'>>', b'>>>', b'<<>', b'>><', b'\\']
UNOPS = [b'-', b'not', b'#', b'~', b'@', b'%', b'$']
ASSIGNOPS = [b'=', b'=', b'=', b'+=', b'-=', b'*=', b'/=', b'%=', b'..=']

NAMES = [b'a', b'b', b'x', b'y', b'i', b'n', b't', b'foo', b'bar', b'player', b'_x', b'endx', b'_if', b'nilly',
         b'z', b'ba', b'bb', b'obj', b'\x8e', b'x\x83', b'\x97n', b'do_it', b'v2', b'count_1', b'self', b'tbl',
         b'e', b'p', b'k', b'w', b'\xef\xbb\xbfm',
         # identifiers that are reserved words or special names in neighbouring dialects (ordinary names here)
         b'_ENV', b'_G', b'continue']
BUILTINS = [b'print', b'spr', b'btn', b'rnd', b'flr', b'add', b'del', b'pairs', b'all', b'cls', b'sin', b'max',
            b'sub', b'tostr', b'_update', b'_draw', b'_init', b'mid', b'stat', b't']
FIELDS = [b'x', b'y', b'w', b'len', b'pos', b'vel', b'name', b'update', b'draw', b'n', b'a', b'z', b'id', b'\x91k']
LABELS = [b'top', b'done', b'l1', b'again', b'a', b'\x8eq', b'continue']

NUMBERS = [b'0', b'1', b'2', b'10', b'255', b'0.5', b'1.5', b'5.', b'.5', b'.25', b'1e3', b'2E-2', b'1e+2', b'0x10',
           b'0XFF', b'0x1f.8', b'0x.8', b'0b101', b'0B1', b'0b1.1', b'32767', b'007', b'3.14159',
           b'0b0.00000000000000001', b'0x.00000000000000008', b'0.000000000000000000001']
STRINGS = [b'""', b'"s"', b"'s'", b'"a b"', b'"it\'s"', b'"\\n"', b'"\\65\\066"', b'"\\0001"', b'"\x8e\x97"',
           b'[[ls]]', b'[=[l]]s]=]', b'"--x"', b'"\\x41"', b'"\\""', b"'\\''", b'"\\\\"', b'"1"', b'[[\nml]]',
           b'"\\14"', b'"\\*\\^"', b'"x=1"', b'"%d"', b'[[a \nb\t\n c]]', b'[==[\n x  \n]==]', b'"  lead"', b'" "',
           b'"tail\\z  "', b'[[#..# \n#..#\t\n]]',
           # strings whose content is spelled like a keyword or symbol; blank-only lines inside long strings
           b'"nil"', b'"true"', b"'false'", b'"end"', b'[[do]]', b'"("', b'"["', b'"{"', b'"."', b'"="', b'","', b'"..."',
           b'"::"', b'[[#\n   \n#]]', b'[[a\n \n\t\nb]]', b'"-"', b'"--"', b"'not'",
           # long strings whose text starts with one / two line breaks (the first one is not part of the value)
           b'[[\n\nx]]', b'[==[\r\n\ny]==]', b'[[\n]]', b'[[\n\n]]',
           # levelled long strings whose text ends in a bracket (or bracket + equals): the closing bracket must keep its level
           b'"\x10\x11 ok"', b"'\x7f'", b'"\x1f\x01"',
           b'[==[see items[1]]==]', b'[=[t[i]]=]', b'[==[x]=]==]', b'[=[]]=]', b'[==[a]]b]==]']


class Cfg:
    def __init__(self, max_depth=3, max_stmts=6, budget=140, avoid=()):
        self.max_depth = max_depth
        self.max_stmts = max_stmts
        self.budget = budget
        self.avoid = set(avoid)


class _Gen:
    def __init__(self, ch, cfg):
        self.ch = ch
        self.cfg = cfg
        self.budget = cfg.budget
        self.tags = set()
        self.scope_depth = 0     # > 0 while generating inside a line-scoped construct

    # ---------------------------------------------------------------- names
    def name(self):
        ch = self.ch
        return ch.pick(NAMES) if not ch.chance(40) else ch.pick(BUILTINS)

    def field(self):
        return self.ch.pick(FIELDS)

    # ---------------------------------------------------------------- expressions
    def exp(self, d, vararg=False, simple=False):
        ch = self.ch
        items = []
        nterms = 1
        if not simple and self.budget > 0:
            nterms = ch.weighted([(150, 1), (70, 2), (28, 3), (8, 4)])
        for k in range(nterms):
            if k > 0:
                items.append(('binop', ch.pick(BINOPS)))
            if ch.chance(36):
                items.append(('unop', ch.pick(UNOPS)))
                if ch.chance(40):
                    items.append(('unop', ch.pick(UNOPS)))
            items.append(self.term(d, vararg))
        self.budget -= len(items)
        return ('exp', items)

    def term(self, d, vararg):
        ch = self.ch
        deep = d > 0 and self.budget > 0
        k = ch.weighted([(60, 'chain'), (46, 'number'), (26, 'string'), (14, 'const'),
                         (14 if deep else 0, 'table'), (10 if deep else 0, 'function'),
                         (12 if vararg else 0, 'dots')])
        if k == 'number':
            return ('number', ch.pick(NUMBERS))
        if k == 'string':
            return ('string', ch.pick(STRINGS))
        if k == 'const':
            return (ch.pick(['nil', 'true', 'false']),)
        if k == 'dots':
            return ('dots',)
        if k == 'table':
            return self.table(d - 1, vararg)
        if k == 'function':
            return ('function', self.body(d - 1))
        return self.chain(d, vararg)

    def table(self, d, vararg):
        ch = self.ch
        fields = []
        for _ in range(ch.weighted([(60, 0), (60, 1), (50, 2), (40, 3), (10, 5)])):
            fk = ch.below(4)
            if fk <= 1:
                fields.append(('pos', self.exp(d, vararg, simple=ch.chance(160))))
            elif fk == 2:
                fields.append(('named', self.field(), self.exp(d, vararg, simple=True)))
            else:
                fields.append(('keyed', self.exp(d, vararg, simple=True), self.exp(d, vararg, simple=True)))
        self.budget -= 2 + 2 * len(fields)
        return ('table', fields)

    def args(self, d, vararg):
        ch = self.ch
        k = ch.weighted([(200, 'args'), (18, 'string'), (18 if d > 0 else 0, 'table')])
        if k == 'string':
            self.tags.add('string_call_arg')
            return ('stringarg', ch.pick(STRINGS))
        if k == 'table':
            self.tags.add('table_call_arg')
            return ('tablearg', self.table(d - 1, vararg))
        n = ch.weighted([(70, 0), (110, 1), (60, 2), (16, 3)])
        return ('args', [self.exp(d - 1 if d > 0 else 0, vararg, simple=(d <= 0)) for _ in range(n)])

    def chain(self, d, vararg, need=None, head_name_only=False):
        """need: None (any), 'call' (ends in call/method), 'var' (name or ends in index/attr)."""
        ch = self.ch
        if (not head_name_only and d > 0 and self.budget > 0 and 'paren_prefix' not in self.cfg.avoid
                and ch.chance(22)):
            head = ('paren', self.exp(d - 1, vararg))
            self.tags.add('paren_head')
        else:
            head = ('name', self.name())
        sufs = []
        n = ch.weighted([(120, 0), (80, 1), (36, 2), (14, 3)])
        if head[0] == 'paren' and need is None and n == 0:
            # a bare parenthesised expression is an operand: ('chain', paren, [])
            pass
        for _ in range(n):
            k = ch.weighted([(60, 'attr'), (40, 'index'), (60, 'call'), (24, 'method')])
            if k == 'attr':
                sufs.append(('attr', self.field()))
            elif k == 'index':
                sufs.append(('index', self.exp(d - 1 if d > 0 else 0, vararg, simple=(d <= 0))))
            elif k == 'call':
                sufs.append(('call', self.args(d, vararg)))
            else:
                sufs.append(('method', self.field(), self.args(d, vararg)))
        if need == 'call' and (not sufs or sufs[-1][0] not in ('call', 'method')):
            if ch.chance(200):
                sufs.append(('call', self.args(d, vararg)))
            else:
                sufs.append(('method', self.field(), self.args(d, vararg)))
        if need == 'var':
            while sufs and sufs[-1][0] in ('call', 'method'):
                sufs.pop()
            if head[0] == 'paren' and not sufs:
                sufs.append(('attr', self.field()))
        self.budget -= 1 + 2 * len(sufs)
        return ('chain', head, sufs)

    def body(self, d, vararg_ok=True):
        ch = self.ch
        params = [self.name() for _ in range(ch.weighted([(80, 0), (90, 1), (50, 2), (14, 3)]))]
        params = [p for i, p in enumerate(params) if p not in params[:i]]
        dots = vararg_ok and ch.chance(40)
        self.budget -= 3 + len(params)
        return (params, dots, self.block(d, in_loop=False, vararg=dots, in_func=True,
                                         oneline='nested' if self.scope_depth > 0 else False))

    # ---------------------------------------------------------------- statements
    def block(self, d, in_loop=False, vararg=False, in_func=False, top=False, oneline=False):
        ch = self.ch
        stmts = []
        if top:
            n = 1 + ch.below(self.cfg.max_stmts)
        elif oneline == 'direct':
            n = ch.weighted([(150, 1), (50, 2), (10, 3)])
        else:
            n = ch.weighted([(30, 0), (110, 1), (70, 2), (30, 3)])
        for _ in range(n):
            if self.budget <= 0 and stmts:
                break
            st = self.stmt(d, in_loop, vararg, oneline)
            if oneline == 'direct' and not stmts and st[0] == 'do':
                # `if (c) do ... end` is read by picotool (documented hack) as an ordinary if-then
                st = self.simple_stmt(d, vararg, no_paren_head=True, allow_print=False)
            stmts.append(st)
            if oneline and st[0] in ('shortif', 'print'):
                # a line-scoped construct owns the rest of the line: it is the last thing on it
                return stmts
        # laststat
        if oneline != 'direct' or ch.chance(50):
            k = ch.weighted([(220, None), (60 if oneline == 'direct' else 20, 'return'),
                             ((40 if oneline == 'direct' else 16) if in_loop else 0, 'break')])
            if k == 'return':
                n = ch.weighted([(60, 0), (90, 1), (30, 2)])
                stmts.append(('return', [self.exp(d - 1 if d > 0 else 0, vararg, simple=(d <= 0)) for _ in range(n)]
                              if n else None))
            elif k == 'break':
                stmts.append(('break',))
        return stmts

    def simple_stmt(self, d, vararg, no_paren_head=False, allow_print=True):
        ch = self.ch
        k = ch.weighted([(100, 'assign'), (70, 'call'), (14 if allow_print else 0, 'print'), (10, 'local')])
        if k == 'assign':
            nt = ch.weighted([(200, 1), (30, 2), (8, 3)])
            op = ch.pick(ASSIGNOPS)
            if op != b'=':
                nt = 1
            targets = [self.chain(d, vararg, need='var', head_name_only=(no_paren_head or i > 0 and False))
                       for i in range(nt)]
            ne = 1 if op != b'=' else ch.weighted([(200, 1), (40, 2), (10, 3)])
            return ('assign', targets, op, [self.exp(d, vararg) for _ in range(ne)])
        if k == 'call':
            return ('call', self.chain(d, vararg, need='call', head_name_only=no_paren_head))
        if k == 'print':
            self.tags.add('qmark_print')
            pk = ch.weighted([(120, 'string'), (100, 'args'), (20 if d > 0 else 0, 'table')])
            if pk == 'string':
                return ('print', ('stringarg', ch.pick(STRINGS)))
            self.scope_depth += 1
            try:
                if pk == 'table':
                    return ('print', ('tablearg', self.table(d - 1, vararg)))
                n = ch.weighted([(120, 1), (60, 2), (20, 3)])
                return ('print', ('args', [self.exp(d - 1 if d > 0 else 0, vararg, simple=(d <= 0))
                                           for _ in range(n)]))
            finally:
                self.scope_depth -= 1
        names = [self.name() for _ in range(ch.weighted([(200, 1), (40, 2)]))]
        names = [p for i, p in enumerate(names) if p not in names[:i]]
        if ch.chance(50):
            return ('local', names, None)
        return ('local', names, [self.exp(d, vararg) for _ in range(ch.weighted([(200, 1), (40, 2)]))])

    def stmt(self, d, in_loop, vararg, oneline=False):
        """oneline: False | 'direct' (statement sits directly in a short-if body) | 'nested' (inside a block
        that is itself on a short-if line).  Line-scoped constructs own the rest of their line, so inside one
        they may only appear as the last direct statement."""
        ch = self.ch
        deep = d > 0 and self.budget > 0
        w = 26 if deep else 0
        wl = 0 if oneline else w
        scoped_ok = self.scope_depth == 0 or oneline == 'direct'
        ws = (w + 8) if (deep and scoped_ok and 'short_if' not in self.cfg.avoid) else 0
        sub = 'nested' if (oneline or self.scope_depth > 0) else False
        k = ch.weighted([(170, 'simple'), (w, 'if'), (ws, 'shortif'),
                         (w, 'fornum'), (w // 2, 'forin'), (w // 2, 'while'), (w // 3, 'repeat'), (w // 3, 'do'),
                         (wl, 'function'), (wl // 2, 'localfunction'), (6, 'label'), (6, 'goto'),
                         (5 if (in_loop and 'break_mid_block' not in self.cfg.avoid) else 0, 'break')])
        self.budget -= 2
        if k == 'simple':
            return self.simple_stmt(d, vararg, no_paren_head=bool(oneline), allow_print=scoped_ok)
        oneline = sub
        if k == 'if' and ch.chance(12) and not oneline and self.scope_depth == 0 and 'if_do' not in self.cfg.avoid:
            # `if (cond) do ... end`: an accident of PICO-8's short-if preprocessing that picotool's parser
            # deliberately accepts as an ordinary if
            self.tags.add('if_do')
            return ('ifdo', self.exp(d - 1, vararg), self.block(d - 1, in_loop, vararg))
        if k == 'if':
            pairs = [(self.exp(d - 1, vararg), self.block(d - 1, in_loop, vararg, oneline=oneline))]
            for _ in range(ch.weighted([(160, 0), (50, 1), (14, 2)])):
                pairs.append((self.exp(d - 1, vararg), self.block(d - 1, in_loop, vararg, oneline=oneline)))
            els = self.block(d - 1, in_loop, vararg, oneline=oneline) if ch.chance(90) else None
            return ('if', pairs, els)
        if k == 'shortif':
            self.tags.add('short_if')
            self.scope_depth += 1
            try:
                cond = self.exp(d - 1, vararg)
                body = self.block(d - 1, in_loop, vararg, oneline='direct')
                els = None
                if ch.chance(16) and 'empty_then' not in self.cfg.avoid:
                    # `if (c) else stmt`: PICO-8 rewrites the line to `if (c) then else stmt end`
                    els = self.block(d - 1, in_loop, vararg, oneline='direct')
                    if els:
                        self.tags.add('short_if_empty_then')
                        return ('shortif', cond, [], els)
                    els = None
                if not body:
                    body = [self.simple_stmt(d - 1, vararg, no_paren_head=True)]
                if body[-1][0] == 'shortif':
                    self.tags.add('nested_short_if')
                if ch.chance(70) and body[-1][0] not in ('shortif', 'print'):
                    els = self.block(d - 1, in_loop, vararg, oneline='direct')
                    if not els:
                        els = None
                elif ch.chance(14) and body[-1][0] not in ('shortif', 'print') and 'dangling_else' not in self.cfg.avoid:
                    # PICO-8 (and picotool's parser, explicitly) accept an `else` with nothing after it
                    els = []
                    self.tags.add('dangling_else')
            finally:
                self.scope_depth -= 1
            return ('shortif', cond, body, els)
        if k in ('fornum', 'forin', 'while') and ch.chance(40) and d > 1:
            # the `continue` idiom: the same label name at the end of every such loop body (labels belong to blocks)
            self.tags.add('continue_idiom')
            body = [('if', [(self.exp(0, vararg, simple=True), [('goto', b'continue')])], None)] + \
                self.block(d - 1, True, vararg, oneline=oneline)
            if body[-1][0] in ('return', 'break'):
                body.pop()
            if ch.chance(70) and 'break_mid_block' not in self.cfg.avoid:
                body.append(('break',))          # `break ::continue::` - leave the loop unless the goto skipped this
                self.tags.add('break_mid_block')
            body.append(('label', b'continue'))
            if k == 'while':
                return ('while', self.exp(d - 1, vararg), body)
            return ('fornum', self.name(), self.exp(d - 1, vararg, simple=True), self.exp(d - 1, vararg, simple=True),
                    None, body)
        if k == 'fornum':
            return ('fornum', self.name(), self.exp(d - 1, vararg, simple=True), self.exp(d - 1, vararg, simple=True),
                    self.exp(d - 1, vararg, simple=True) if ch.chance(70) else None,
                    self.block(d - 1, True, vararg, oneline=oneline))
        if k == 'forin':
            names = [self.name() for _ in range(ch.weighted([(100, 1), (120, 2), (20, 3)]))]
            names = [p for i, p in enumerate(names) if p not in names[:i]]
            return ('forin', names, [self.exp(d - 1, vararg) for _ in range(ch.weighted([(200, 1), (30, 2)]))],
                    self.block(d - 1, True, vararg, oneline=oneline))
        if k == 'while':
            return ('while', self.exp(d - 1, vararg), self.block(d - 1, True, vararg, oneline=oneline))
        if k == 'repeat':
            return ('repeat', self.block(d - 1, True, vararg, oneline=oneline), self.exp(d - 1, vararg))
        if k == 'do':
            return ('do', self.block(d - 1, in_loop, vararg, oneline=oneline))
        if k == 'function':
            path = [self.name()] + [self.field() for _ in range(ch.weighted([(170, 0), (50, 1), (14, 2)]))]
            meth = self.field() if ch.chance(40) else None
            return ('function', path, meth, self.body(d - 1))
        if k == 'localfunction':
            return ('localfunction', self.name(), self.body(d - 1))
        if k == 'label':
            self.tags.add('label')
            return ('label', ch.pick(LABELS))
        if k == 'break':
            # Lua 5.2: break is an ordinary statement; more statements (a label, typically) may follow it
            self.tags.add('break_mid_block')
            return ('break',)
        self.tags.add('goto')
        return ('goto', ch.pick(LABELS))


def gen_program(ch, cfg=None):
    """Returns (model block, tags)."""
    cfg = cfg or Cfg()
    g = _Gen(ch, cfg)
    # (a chunk is the body of a vararg function - Lua 5.2 3.3.2 -, so `...` may be used at its top level)
    blk = g.block(cfg.max_depth, top=True, in_func=False, vararg='chunk_varargs' not in cfg.avoid)
    if chunk_uses_varargs(blk):
        g.tags.add('chunk_level_varargs')
    return blk, g.tags


def chunk_uses_varargs(node):
    """Does the block use `...` outside every function body (i.e. the chunk's own arguments)?"""
    if isinstance(node, tuple):
        if node == ('dots',):
            return True
        if node and node[0] in ('function', 'localfunction'):
            return False
        return any(chunk_uses_varargs(x) for x in node)
    if isinstance(node, list):
        return any(chunk_uses_varargs(x) for x in node)
    return False


# ---------------------------------------------------------------------------------------
# rendering: model -> intended tokens
# ---------------------------------------------------------------------------------------

class RT:
    """One intended significant token."""
    __slots__ = ('text', 'kind', 'depth', 'stmt_start', 'stmt_depth', 'scope', 'scope_start', 'scope_end', 'role',
                 'closer', 'opens', 'semi', 'after_block_open', 'sid', 'paren_follows')

    def __init__(self, text, kind, depth):
        self.text = text
        self.kind = kind
        self.depth = depth          # blocks + brackets open at this token (closers count as closed)
        self.stmt_start = False     # first token of a statement
        self.stmt_depth = 0         # block nesting of the statement this token starts
        self.scope = 0              # > 0: inside a line-scoped construct (no line break before this token)
        self.scope_start = False    # first token of an outermost line-scoped construct
        self.scope_end = False      # last token of an outermost line-scoped construct
        self.role = None            # identifier role for names
        self.closer = False         # end / until / else / elseif / ) ] }
        self.opens = False          # then / do / else / repeat / function-body ')' / ( [ {
        self.semi = False           # an optional ';' statement separator (layout may drop it)
        self.after_block_open = False
        self.paren_follows = False  # the next statement starts with '(' and no ';' separates them
        self.sid = -1               # id of the statement this token belongs to (innermost)

    def __repr__(self):
        return 'RT(%r,%s,d%d%s)' % (self.text, self.kind, self.depth, ',S' if self.stmt_start else '')


def _kind_of(text):
    if text in reflex.KEYWORDS:
        return 'keyword'
    return 'name'


class _Render:
    def __init__(self, ch=None):
        self.toks = []
        self.depth = 0
        self.scope = 0
        self.ch = ch
        self.stmts = []          # (sid, stmt model, first token index, last token index, block depth, parent sid)
        self.block_depth = 0
        self.parent = -1

    def emit(self, text, kind=None, role=None, closer=False, opens=False):
        if kind is None:
            kind = 'symbol'
        if closer:
            self.depth -= 1
        t = RT(text, kind, self.depth)
        t.scope = self.scope
        t.role = role
        t.closer = closer
        t.opens = opens
        t.sid = self.parent
        self.toks.append(t)
        if opens:
            self.depth += 1
        return t

    def kw(self, text, closer=False, opens=False):
        return self.emit(text, 'keyword', closer=closer, opens=opens)

    def name(self, text, role):
        return self.emit(text, 'name', role=role)

    # ---------------------------------------------------------------- expressions
    def exp(self, e):
        assert e[0] == 'exp'
        for it in e[1]:
            if it[0] in ('unop', 'binop'):
                self.emit(it[1], 'keyword' if it[1] in (b'and', b'or', b'not') else 'symbol')
            else:
                self.operand(it)

    def operand(self, o):
        k = o[0]
        if k in ('nil', 'true', 'false'):
            self.kw(k.encode())
        elif k == 'number':
            self.emit(o[1], 'number')
        elif k == 'string':
            self.emit(o[1], 'string')
        elif k == 'dots':
            self.emit(b'...')
        elif k == 'function':
            self.kw(b'function')
            self.body(o[1])
        elif k == 'table':
            self.table(o)
        elif k == 'chain':
            self.chain(o)
        else:
            raise ValueError(o)

    def table(self, t):
        self.emit(b'{', opens=True)
        fields = t[1]
        for i, f in enumerate(fields):
            if f[0] == 'pos':
                self.exp(f[1])
            elif f[0] == 'named':
                self.name(f[1], 'field')
                self.emit(b'=')
                self.exp(f[2])
            else:
                self.emit(b'[', opens=True)
                self.exp(f[1])
                self.emit(b']', closer=True)
                self.emit(b'=')
                self.exp(f[2])
            last = i == len(fields) - 1
            if not last or (self.ch is not None and self.ch.chance(40)):
                self.emit(b';' if (self.ch is not None and self.ch.chance(40)) else b',')
        self.emit(b'}', closer=True)

    def args(self, a):
        if a[0] == 'args':
            self.emit(b'(', opens=True)
            for i, e in enumerate(a[1]):
                if i:
                    self.emit(b',')
                self.exp(e)
            self.emit(b')', closer=True)
        elif a[0] == 'tablearg':
            self.table(a[1])
        else:
            self.emit(a[1], 'string')

    def chain(self, c, target=False):
        head = c[1]
        if head[0] == 'name':
            self.name(head[1], 'var')
        else:
            self.emit(b'(', opens=True)
            self.exp(head[1])
            self.emit(b')', closer=True)
        for s in c[2]:
            if s[0] == 'index':
                self.emit(b'[', opens=True)
                self.exp(s[1])
                self.emit(b']', closer=True)
            elif s[0] == 'attr':
                self.emit(b'.')
                self.name(s[1], 'field')
            elif s[0] == 'call':
                self.args(s[1])
            else:
                self.emit(b':')
                self.name(s[1], 'method')
                self.args(s[2])

    def body(self, b):
        params, dots, blk = b
        self.emit(b'(', opens=True)
        for i, p in enumerate(params):
            if i:
                self.emit(b',')
            self.name(p, 'param')
        if dots:
            if params:
                self.emit(b',')
            self.emit(b'...')
        self.emit(b')', closer=True)
        # the function block is open until 'end'
        self.depth += 1
        self.toks[-1].opens = True
        self.block(blk)
        self.kw(b'end', closer=True)

    # ---------------------------------------------------------------- statements
    def block(self, blk):
        self.block_depth += 1
        first = True
        for s in blk:
            self.stmt(s, first)
            first = False
            self.prev_kind = s[0]
        self.block_depth -= 1
        self.prev_kind = None

    def explist(self, es):
        for i, e in enumerate(es):
            if i:
                self.emit(b',')
            self.exp(e)

    def starts_with_paren(self, s):
        if s[0] == 'assign':
            return s[1][0][1][0] == 'paren'
        if s[0] == 'call':
            return s[1][1][0] == 'paren'
        return False

    def stmt(self, s, first_in_block):
        k = s[0]
        start = len(self.toks)
        sid = len(self.stmts)
        self.stmts.append(None)
        saved_parent = self.parent
        # an (always legal) ';' before a statement that starts with '(' - otherwise it would continue
        # the previous statement as a call
        if self.starts_with_paren(s) and not first_in_block:
            # ... except, sometimes, after a statement that cannot be continued: one closed by `end`, or a short-if,
            # which owns its line only (the parenthesis then starts the next line)
            closed = getattr(self, 'prev_kind', None) in ('do', 'while', 'if', 'ifdo', 'fornum', 'forin', 'function',
                                                          'localfunction') or \
                (getattr(self, 'prev_kind', None) == 'shortif' and self.scope == 0 and self.toks[-1].scope_end)
            if closed and self.ch is not None and self.ch.chance(150):
                self.toks[-1].paren_follows = True
            else:
                t = self.emit(b';')
                t.semi = False
                start = len(self.toks)
        self.parent = sid
        if k == 'assign':
            for i, c in enumerate(s[1]):
                if i:
                    self.emit(b',')
                self.chain(c, target=True)
            self.emit(s[2])
            self.explist(s[3])
        elif k == 'call':
            self.chain(s[1])
        elif k == 'print':
            self.scope += 1
            self.name(b'?', 'builtin').scope_start = (self.scope == 1)
            self.args(s[1])
            self.scope -= 1
            if self.scope == 0:
                self.toks[-1].scope_end = True
        elif k == 'do':
            self.kw(b'do', opens=True)
            self.block(s[1])
            self.kw(b'end', closer=True)
        elif k == 'while':
            self.kw(b'while')
            self.exp(s[1])
            self.kw(b'do', opens=True)
            self.block(s[2])
            self.kw(b'end', closer=True)
        elif k == 'repeat':
            self.kw(b'repeat', opens=True)
            self.block(s[1])
            self.kw(b'until', closer=True)
            self.exp(s[2])
        elif k == 'if':
            for i, (e, b) in enumerate(s[1]):
                if i == 0:
                    self.kw(b'if')
                else:
                    self.kw(b'elseif', closer=True)
                self.exp(e)
                self.kw(b'then', opens=True)
                self.block(b)
            if s[2] is not None:
                self.kw(b'else', closer=True)
                self.depth += 1
                self.toks[-1].opens = True
                self.block(s[2])
            self.kw(b'end', closer=True)
        elif k == 'ifdo':
            self.kw(b'if')
            self.emit(b'(', opens=True)
            self.exp(s[1])
            self.emit(b')', closer=True)
            self.kw(b'do', opens=True)
            self.block(s[2])
            self.kw(b'end', closer=True)
        elif k == 'shortif':
            self.scope += 1
            self.kw(b'if').scope_start = (self.scope == 1)
            self.emit(b'(', opens=True)
            self.exp(s[1])
            self.emit(b')', closer=True)
            self.block(s[2])
            if s[3] is not None:
                self.kw(b'else')
                self.block(s[3])
            self.scope -= 1
            if self.scope == 0:
                self.toks[-1].scope_end = True
        elif k == 'fornum':
            self.kw(b'for')
            self.name(s[1], 'var')
            self.emit(b'=')
            self.exp(s[2])
            self.emit(b',')
            self.exp(s[3])
            if s[4] is not None:
                self.emit(b',')
                self.exp(s[4])
            self.kw(b'do', opens=True)
            self.block(s[5])
            self.kw(b'end', closer=True)
        elif k == 'forin':
            self.kw(b'for')
            for i, n in enumerate(s[1]):
                if i:
                    self.emit(b',')
                self.name(n, 'var')
            self.kw(b'in')
            self.explist(s[2])
            self.kw(b'do', opens=True)
            self.block(s[3])
            self.kw(b'end', closer=True)
        elif k == 'function':
            self.kw(b'function')
            for i, n in enumerate(s[1]):
                if i:
                    self.emit(b'.')
                self.name(n, 'var' if i == 0 else 'field')
            if s[2] is not None:
                self.emit(b':')
                self.name(s[2], 'method')
            self.body(s[3])
        elif k == 'localfunction':
            self.kw(b'local')
            self.kw(b'function')
            self.name(s[1], 'var')
            self.body(s[2])
        elif k == 'local':
            self.kw(b'local')
            for i, n in enumerate(s[1]):
                if i:
                    self.emit(b',')
                self.name(n, 'var')
            if s[2] is not None:
                self.emit(b'=')
                self.explist(s[2])
        elif k == 'goto':
            self.kw(b'goto')
            self.name(s[1], 'label')
        elif k == 'label':
            self.emit(b'::' + s[1] + b'::', 'label', role='label')
        elif k == 'break':
            self.kw(b'break')
        elif k == 'return':
            self.kw(b'return')
            if s[1] is not None:
                self.explist(s[1])
        else:
            raise ValueError(s)
        self.parent = saved_parent
        self.toks[start].stmt_start = True
        self.toks[start].stmt_depth = self.block_depth
        end = len(self.toks) - 1
        self.stmts[sid] = (sid, s, start, end, self.block_depth, saved_parent)
        # optional ';' after the statement (never inside a one-line construct's else-less tail ambiguity)
        if self.ch is not None and self.ch.chance(22):
            t = self.emit(b';')
            t.semi = True
            t.sid = saved_parent
            if self.toks[end].scope_end:
                # keep the ';' on the line of the construct
                self.toks[end].scope_end = False
                t.scope = 1
                t.scope_end = True


def render(model, ch=None):
    """Returns (tokens, stmts).  ch (optional) drives cosmetic choices: ';' separators, table separators."""
    r = _Render(ch)
    r.block_depth = -1
    r.block(model)
    return r.toks, r.stmts


# ---------------------------------------------------------------------------------------
# layout: tokens -> source bytes
# ---------------------------------------------------------------------------------------

def glue_ok(a, b):
    """True if writing token texts a and b with nothing between them still lexes to exactly a, b."""
    toks = reflex.try_lex(a + b)
    if toks is None or len(toks) != 2:
        return False
    return toks[0].text == a and toks[1].text == b


COMMENT_WORDS = [b'c', b'note', b'x=1', b'end', b'"q', b'[[', b']]', b'todo: fix', b'\x8e\x97', b'if (a) b', b'--', b'',
                 # backslash sequences (commented-out code, paths); the editor's tab separator `-->8`
                 b'print("a\\n")', b'c:\\pico\\x', b'\\1 \\g<0>', b'>8', b'>8 tab',
                 # raw vertical tab / form feed (P8SCII 11, 12: ordinary characters, but line ends to str.splitlines)
                 b'a\x0bx=1', b'\x0c y=2 z()',
                 # P8SCII 16-31 and 127 are glyphs (stored in .p8 files as non-ASCII characters) although below 128
                 b'menu \x10 item', b'\x7f ring \x1b']


def line_comment(ch):
    lead = ch.pick([b'--', b'--', b'//'])
    word = ch.pick(COMMENT_WORDS)
    sp = ch.pick([b'', b' '])
    if lead == b'--' and word.startswith(b'['):
        sp = b' '        # '--[[' would open a long comment
    return lead + sp + word


def long_comment(ch, multiline_ok, nl=b'\n'):
    body = ch.pick(COMMENT_WORDS[:9] + COMMENT_WORDS[12:15])
    if body in (b']]',):
        body = b'c'
    if multiline_ok and ch.chance(90):
        for _ in range(1 + (ch.below(3) if ch.chance(60) else 0)):
            body = body + ch.pick([b'', b'', b' ', b'\t']) + nl + ch.pick([b'', b'  ', b'\t']) + ch.pick(COMMENT_WORDS[:4])
    return b'--[[' + body + b']]'


class Layout:
    """Result of laying out a token list."""

    def __init__(self):
        self.src = b''
        self.comments = []        # (index of the following token (len(tokens) if trailing), comment text)
        self.nl = b'\n'
        self.final_newline = True
        self.kept = []            # tokens actually written (optional semis may be dropped)


def layout(tokens, ch, mode='free', crlf=None, comments=True, header=None, allow_cr=False):
    """mode: 'free' | 'minimal' | 'lines'.  Returns Layout.  allow_cr: occasionally use bare CR line ends
    (picotool's lexer and REFLEX both take a lone CR as a line end)."""
    lay = Layout()
    if crlf is None:
        crlf = ch.chance(26)
    nl = b'\r\n' if crlf else b'\n'
    if allow_cr and ch.chance(14):
        nl = b'\r'
    lay.nl = nl
    toks = list(tokens)
    prev = None
    parts = []
    if header:
        parts.append(header)
    for i, t in enumerate(toks):
        if prev is None:
            sep = b''
            if mode != 'minimal' and not header:
                k = ch.weighted([(180, 0), (20, 1), (20, 2), (16, 3)])
                if k == 1:
                    sep = ch.pick([b' ', b'\t', b'  '])
                elif k == 2:
                    sep = nl * (1 + ch.below(2))
                elif k == 3 and comments:
                    c = line_comment(ch)
                    lay.comments.append((0, c))
                    sep = c + nl
        else:
            must_nl = _ends_scope(prev, toks, i) and True
            no_nl = t.scope > 0 and not t.scope_start and not must_nl
            sep = _separator(ch, mode, prev, t, must_nl, no_nl, nl, comments, lay, i)
        parts.append(sep)
        parts.append(t.text)
        prev = t
    # tail
    tail = b''
    if toks:
        k = ch.weighted([(150, 'nl'), (50, 'none'), (20, 'blank'), (16, 'comment'), (10, 'spaces')])
        if mode == 'minimal':
            k = ch.weighted([(128, 'nl'), (128, 'none')])
        if k == 'nl':
            tail = nl
        elif k == 'blank':
            tail = nl + nl
        elif k == 'comment' and comments:
            c = line_comment(ch)
            lay.comments.append((len(toks), c))
            tail = b' ' + c + (nl if ch.chance(160) else b'')
        elif k == 'spaces':
            tail = b'  '
    parts.append(tail)
    lay.src = b''.join(parts)
    lay.final_newline = lay.src.endswith(b'\n')
    lay.kept = toks
    return lay


def _ends_scope(prev, toks, i):
    """prev is the last token of an outermost line-scoped construct -> a line break must follow."""
    return prev.scope_end


def _separator(ch, mode, prev, t, must_nl, no_nl, nl, comments, lay, idx):
    need_space = not glue_ok(prev.text, t.text)
    if must_nl:
        if mode == 'minimal' or not comments:
            return nl
        k = ch.weighted([(160, 0), (30, 1), (30, 2), (20, 3)])
        if k == 0:
            return nl
        if k == 1:
            return b' ' + nl + ch.pick([b'', b'  ', b'\t'])
        if k == 2:
            c = line_comment(ch)
            lay.comments.append((idx, c))
            return b' ' + c + nl
        return nl + nl
    if mode == 'minimal':
        return b' ' if need_space else b''
    if mode == 'lines':
        return _lines_separator(ch, prev, t, need_space, no_nl, nl, comments, lay, idx)
    # free layout
    k = ch.weighted([(90, 'none'), (80, 'space'), (22, 'nl'), (10, 'tab'), (8, 'spaces'), (10, 'lcomment'),
                     (8, 'linecomment'), (6, 'blank')])
    if no_nl and k in ('nl', 'linecomment', 'blank'):
        k = 'space'
    if not comments and k in ('lcomment', 'linecomment'):
        k = 'space'
    if k == 'none':
        return b' ' if need_space else b''
    if k == 'space':
        return b' '
    if k == 'tab':
        return b'\t'
    if k == 'spaces':
        return b'  ' + ch.pick([b'', b' ', b'\t'])
    if k == 'nl':
        return ch.pick([b'', b' ']) + nl + ch.pick([b'', b'  ', b'\t', b'    '])
    if k == 'blank':
        return nl + ch.pick([b'', b'  ']) + nl
    if k == 'linecomment' and ch.chance(60):
        parts = []
        for _ in range(2 + ch.below(3) if ch.chance(200) else 9 + ch.below(6)):
            c = line_comment(ch)
            lay.comments.append((idx, c))
            parts.append(b' ' + c + nl + ch.pick([b'', b'  ', nl]))
        return b''.join(parts)
    if k == 'lcomment':
        c = long_comment(ch, not no_nl and nl != b'\r', nl)
        lay.comments.append((idx, c))
        # a long comment directly after '-' would read '---[[' (line comment); keep blanks around it
        return b' ' + c + ch.pick([b'', b' '])
    c = line_comment(ch)
    lay.comments.append((idx, c))
    return b' ' + c + nl + ch.pick([b'', b'  '])


def _lines_separator(ch, prev, t, need_space, no_nl, nl, comments, lay, idx):
    """One statement per line; blocks broken at their keywords; brackets optionally broken."""
    brk = False
    if not no_nl:
        if t.stmt_start or (t.closer and t.kind == 'keyword'):
            brk = True
        elif prev.opens and prev.kind == 'keyword':
            brk = True
        elif prev.opens and prev.text == b')' and not t.closer:
            brk = True      # function body after its parameter list
        elif prev.opens and prev.text in (b'{', b'(') and ch.chance(50):
            brk = True
        elif t.closer and t.text in (b'}', b')') and ch.chance(40):
            brk = True
        elif prev.text in (b',', b';') and prev.depth > 0 and ch.chance(30) and t.kind != 'keyword':
            brk = True
    if not brk:
        if need_space:
            return b' '
        return ch.pick([b'', b' ', b' '])
    lead = ch.pick([b'', b'  ', b'    ', b'\t', b' ', b'      '])
    trail = ch.pick([b'', b'', b' ', b'  ', b'\t'])
    k = ch.weighted([(170, 'plain'), (30, 'blank'), (16, 'blanks'), (22, 'ownline'), (22, 'eol'), (8, 'wsline'),
                     (8, 'multi')])
    if not comments and k in ('ownline', 'eol', 'multi'):
        k = 'plain'
    if k == 'multi':
        # a run of own-line comments separated by blanks and blank lines
        parts = [trail + nl]
        for _ in range(2 + ch.below(3) if ch.chance(200) else 9 + ch.below(6)):
            c = line_comment(ch)
            lay.comments.append((idx, c))
            parts.append(ch.pick([b'', b'  ', b'\t']) + c + nl)
            if ch.chance(80):
                parts.append(ch.pick([b'', b' ']) + nl)
        return b''.join(parts) + lead
    if k == 'plain':
        return trail + nl + lead
    if k == 'blank':
        return trail + nl + nl + lead
    if k == 'blanks':
        return trail + nl + nl + ch.pick([b'', b'  ']) + nl + lead
    if k == 'wsline':
        return trail + nl + b'   ' + nl + lead
    if k == 'eol':
        c = line_comment(ch)
        lay.comments.append((idx, c))
        return b' ' + c + nl + lead
    c = line_comment(ch) if ch.chance(190) else long_comment(ch, nl != b'\r', nl)
    lay.comments.append((idx, c))
    return trail + nl + ch.pick([b'', b'  ', b'\t']) + c + nl + lead


def intended(tokens):
    """[(kind, text)] of the significant tokens, as REFLEX would report them."""
    return [(t.kind, t.text) for t in tokens]


def verify(lay):
    """Generator self-check: REFLEX(lay.src) significant tokens == lay.kept.  Returns REFLEX tokens or None."""
    toks = reflex.try_lex(lay.src)
    if toks is None:
        return None
    sig = reflex.significant(toks)
    if len(sig) != len(lay.kept):
        return None
    for a, b in zip(sig, lay.kept):
        if a.kind != b.kind or a.text != b.text:
            return None
    return toks
