"""Coverage-guided fuzzing of picotool with atheris (libFuzzer), used by thorough tiers when atheris imports.

Run as a subprocess (atheris.Fuzz() never returns):
    python -m vlib.fuzz <target> <result.json> [libFuzzer flags: -runs=N -seed=S -max_len=L ...] [corpus dir]

Targets put the *semantic oracle* of a check inside the fuzz target (a target that only waits for crashes would
test robustness, not the property).  Bytes the reference lexer / stream parser rejects are out of domain and
simply ignored.  On the first violation the case is written to <result.json> and the process exits; otherwise
<result.json> receives the counters when libFuzzer finishes its -runs budget (written incrementally, because
atexit handlers do not run under atheris).
"""
import json
import os
import sys
import time


def main():
    target_name, result_path = sys.argv[1], sys.argv[2]
    fuzz_argv = [sys.argv[0]] + sys.argv[3:]
    here = os.path.dirname(os.path.dirname(os.path.abspath(__file__)))
    sys.path.insert(0, here)
    deps = os.path.join(here, '.deps')
    if os.path.isdir(deps):
        sys.path.append(deps)
    import atheris
    from vlib import runner
    with atheris.instrument_imports(include=['pico8']):
        runner._setup_paths()
        import pico8.lua.lexer  # noqa
        import pico8.lua.lua  # noqa
        import pico8.lua.parser  # noqa
        import pico8.game.compress  # noqa
    from vlib.runner import Violation, jsonable
    state = {'runs': 0, 'in_domain': 0, 'nontrivial': 0, 't0': time.time(), 'last_write': 0.0, 'samples': []}
    runs_target = 0
    for a in fuzz_argv:
        if a.startswith('-runs='):
            runs_target = int(a.split('=', 1)[1])

    def flush(violation=None):
        out = {'target': target_name, 'runs': state['runs'], 'in_domain': state['in_domain'],
               'nontrivial': state['nontrivial'], 'samples': state['samples'][:4],
               'wall_s': round(time.time() - state['t0'], 1), 'violation': violation}
        tmp = result_path + '.tmp'
        with open(tmp, 'w') as fh:
            json.dump(out, fh)
        os.replace(tmp, result_path)

    open_findings = tuple(t for t in os.environ.get('VERIF_OPEN_FINDINGS', '').split(',') if t)
    if target_name == 'c07':
        from checks import c07

        def one(data):
            ref = c07.check_text(data, avoid=open_findings)
            if ref is None:
                return False, False
            return True, bool(c07.classify(data, ref))
    elif target_name == 'c06':
        from checks import c06

        def one(data):
            ref = c06.check_source(data)
            if ref is None:
                return False, False
            return True, c06.nontrivial(ref)
    elif target_name == 'c05':
        from checks import c05

        def one(data):
            if c05.domain_excluded(data):
                return False, False
            nblk, nesc, _kind = c05.check_text(data)
            return True, bool(nblk and nesc)
    else:
        raise SystemExit('unknown fuzz target %r' % target_name)

    def test_one_input(data):
        state['runs'] += 1
        try:
            ok, nontriv = one(bytes(data))
        except Violation as v:
            flush({'msg': v.msg, 'case': jsonable(v.case), 'clause': v.clause})
            sys.stdout.flush()
            os._exit(0)
        if ok:
            state['in_domain'] += 1
            if nontriv:
                state['nontrivial'] += 1
                if len(state['samples']) < 4:
                    state['samples'].append(runner.show(bytes(data), 80))
        now = time.time()
        if now - state['last_write'] > 2.0 or (runs_target and state['runs'] >= runs_target - 2):
            state['last_write'] = now
            flush()

    flush()
    atheris.Setup(fuzz_argv, test_one_input)
    atheris.Fuzz()


if __name__ == '__main__':
    main()
