"""FAULTS - in-process fault injection for picotool's cart writers (DESIGN 3.5, property C11).

Nothing under $VERIF_REPO is modified.  One `Injector(spec)` context installs every patch and removes
every patch again (try/finally, reverse order); `check_clean()` verifies afterwards that none leaked.

What an Injector always does, whatever the fault kind (also for the fault-free dry run, spec=None):

* marks "the format encoder is running": `P8Formatter.to_file` / `P8PNGFormatter.to_file` (classmethods)
  are replaced by classmethods that bump `depth` around the original;
* gives `pico8.game.file` a stand-in for the `tempfile` module whose TemporaryFile / NamedTemporaryFile /
  SpooledTemporaryFile return a `FaultStream` proxy around the real temporary file;
* replaces `builtins.open` by a function that returns a `FaultStream` proxy for files that a `pico8.*`
  module opens for writing (so a picotool that encodes straight into the destination is exercised too);
* wraps the stream handed to the encoder in a `FaultStream` if it is not one already (a picotool that
  buffers in a BytesIO, say).

`FaultStream.write` counts calls made *while the encoder is running* (`count`); with spec
{'kind': 'stream_write', 'k': k} the k-th such call writes the first half of its data and raises
InjectedFault (an OSError, message 'injected').  Writes made while no encoder is running - the single
copy of the finished temporary file into the destination - are passed through and never faulted.

Other kinds (all raise InjectedFault, all only while the encoder is running):
  lua_writer_raises      {'cls': name|None, 'on_pass': p, 'after': i, 'patch_class': bool}
                         the p-th writer instance made during the call raises after yielding i lines
                         (library callers use `inj.writer_cls(base)` = a failing subclass; with
                         patch_class the class' own to_lines is patched, for CLI paths)
  lua_writer_unparseable {'cls':..., 'variant': v, 'at': 'start'|'end', 'patch_class': bool}
                         the writer's output gets a line that does not lex/parse (no exception is raised
                         by the harness; the sanity re-parse of P8Formatter has to reject it)
  section_raises         {'section': gfx|label|gff|map|sfx|music, 'method': to_lines|to_bytes, 'after': i}
  compress_raises        {}  pico8.game.compress.compress_code raises
  png_writer_raises      {'after_rows': r}  png.Writer.write emits its output up to row r, then raises
  none / label_unreadable / natural: nothing is injected (counting only).
"""
import builtins
import sys
import tempfile as _real_tempfile

_REAL_OPEN = builtins.open

# lines that picotool's lexer/parser rejects.  Entries 0 and 2 are rejected wherever they stand; 1 and 3 only as
# the LAST line (an open " or [[ in front of other code may be closed by a quote / ]] in that code - picotool's
# lexer lets quoted strings run over line ends).  ('end end' is not listed: picotool's parser accepts it.)
UNPARSEABLE_LINES = (b'x = = 1\n', b's = "unterminated\n', b'if x then\n', b'y = [[ never closed\n')

SECTION_TARGETS = {
    # section -> (module, class, index of the call among that class' calls during one encoding)
    'gfx': ('pico8.gfx.gfx', 'Gfx', 0),
    'label': ('pico8.gfx.gfx', 'Gfx', 1),
    'gff': ('pico8.gff.gff', 'Gff', 0),
    'map': ('pico8.map.map', 'Map', 0),
    'sfx': ('pico8.sfx.sfx', 'Sfx', 0),
    'music': ('pico8.music.music', 'Music', 0),
}

WRITER_NAMES = {None: 'LuaEchoWriter', 'default': 'LuaEchoWriter', 'minify': 'LuaMinifyTokenWriter',
                'formatter': 'LuaFormatterWriter'}


class InjectedFault(OSError):
    """The error raised by every injected fault."""


class InjectedInterrupt(KeyboardInterrupt):
    """Ctrl-C while the cart is being produced: a failure that is not an Exception (spec['interrupt'] = True)."""


_EXC = [InjectedFault]


def has_injected(exc):
    """True when `exc` is, or was raised while handling / caused by, an InjectedFault."""
    seen = set()
    stack = [exc]
    while stack:
        e = stack.pop()
        if e is None or id(e) in seen:
            continue
        seen.add(id(e))
        if isinstance(e, (InjectedFault, InjectedInterrupt)):
            return True
        stack.append(e.__cause__)
        stack.append(e.__context__)
    return False


class FaultStream:
    """Proxy around a real binary stream; `write` is counted/faulted by the owning Injector."""

    def __init__(self, real, inj, origin):
        object.__setattr__(self, '_real', real)
        object.__setattr__(self, '_inj', inj)
        object.__setattr__(self, '_origin', origin)

    def write(self, data):
        inj = self._inj
        if inj.active and inj.depth > 0:
            idx = inj.count
            inj.count += 1
            inj.origins[self._origin] = inj.origins.get(self._origin, 0) + 1
            if inj.fault_k is not None and idx == inj.fault_k and not inj.fired:
                half = bytes(data)[:len(data) // 2]
                if half:
                    self._real.write(half)          # a short write, then the error
                inj.fire('stream write %d (%s stream)' % (idx, self._origin))
        return self._real.write(data)

    def writelines(self, lines):
        for ln in lines:
            self.write(ln)

    def __enter__(self):
        self._real.__enter__()
        return self

    def __exit__(self, *exc):
        return self._real.__exit__(*exc)

    def __iter__(self):
        return iter(self._real)

    def __getattr__(self, name):
        return getattr(self._real, name)

    def __setattr__(self, name, value):
        setattr(self._real, name, value)


class _TempfileShim:
    """Stands in for the `tempfile` module inside pico8.game.file."""

    def __init__(self, inj):
        self._inj = inj

    def __getattr__(self, name):
        return getattr(_real_tempfile, name)

    def TemporaryFile(self, *a, **kw):
        return FaultStream(_real_tempfile.TemporaryFile(*a, **kw), self._inj, 'temp')

    def NamedTemporaryFile(self, *a, **kw):
        return FaultStream(_real_tempfile.NamedTemporaryFile(*a, **kw), self._inj, 'temp')

    def SpooledTemporaryFile(self, *a, **kw):
        return FaultStream(_real_tempfile.SpooledTemporaryFile(*a, **kw), self._inj, 'temp')


_pristine = {}
_active = [None]


def _pico():
    from pico8.game import file as pfile
    from pico8.game import compress
    from pico8.game.formatter.p8 import P8Formatter
    from pico8.game.formatter.p8png import P8PNGFormatter
    from pico8.lua import lua
    import png
    return pfile, compress, P8Formatter, P8PNGFormatter, lua, png


def _snapshot():
    pfile, compress, P8F, PNGF, lua, png = _pico()
    import importlib
    snap = {
        'builtins.open': builtins.open,
        'file.tempfile': vars(pfile).get('tempfile'),
        'file.TemporaryFile': vars(pfile).get('TemporaryFile'),
        'P8Formatter.to_file': vars(P8F).get('to_file'),
        'P8PNGFormatter.to_file': vars(PNGF).get('to_file'),
        'compress.compress_code': vars(compress).get('compress_code'),
        'png.Writer.write': vars(png.Writer).get('write'),
    }
    for nm in sorted(set(WRITER_NAMES.values())):
        snap['lua.%s.to_lines' % nm] = vars(getattr(lua, nm)).get('to_lines')
    for sec, (modname, clsname, _j) in sorted(SECTION_TARGETS.items()):
        cls = getattr(importlib.import_module(modname), clsname)
        for meth in ('to_lines', 'to_bytes'):
            snap['%s.%s' % (clsname, meth)] = vars(cls).get(meth)
    return snap


def _refresh_pristine():
    """(Re)take the reference snapshot.  The runner purges and re-imports pico8 at the start of every
    part, and a pool worker may run several parts: the snapshot is tied to the current module objects.
    builtins.open and png.Writer.write live outside pico8 and are compared with their true originals."""
    pfile = _pico()[0]
    import png
    if 'png.Writer.write' not in _outside:
        _outside['png.Writer.write'] = vars(png.Writer).get('write')
    if _pristine.get('__file_module__') is not pfile:
        _pristine.clear()
        _pristine.update(_snapshot())
        _pristine['__file_module__'] = pfile


_outside = {}


def check_clean():
    """Raise RuntimeError if any patch point differs from its unpatched value."""
    if _active[0] is not None:
        raise RuntimeError('an Injector is still active')
    _refresh_pristine()
    now = _snapshot()
    bad = [k for k in sorted(now) if now[k] is not _pristine[k]]
    if builtins.open is not _REAL_OPEN:
        bad.append('builtins.open(real)')
    if now['png.Writer.write'] is not _outside['png.Writer.write']:
        bad.append('png.Writer.write(real)')
    if bad:
        raise RuntimeError('leaked fault-injection patches: %s' % ', '.join(bad))


class Injector:
    def __init__(self, spec=None):
        self.spec = dict(spec or {'kind': 'none'})
        self.kind = self.spec.get('kind', 'none')
        self.fault_k = self.spec.get('k') if self.kind == 'stream_write' else None
        self.depth = 0
        self.count = 0            # write calls seen while the encoder was running
        self.encoder_calls = 0
        self.origins = {}
        self.fired = False
        self.fired_what = None
        self.count_at_fire = None
        self.writer_instances = 0
        self.method_calls = {}
        self.active = False
        self._undo = []

    # ------------------------------------------------------------------ plumbing
    def fire(self, what):
        self.fired = True
        self.fired_what = what
        self.count_at_fire = self.count
        raise _EXC[0]('injected')

    def note_fired(self, what):
        self.fired = True
        self.fired_what = what
        self.count_at_fire = self.count

    def _patch(self, obj, name, new):
        d = vars(obj)
        had = name in d
        old = d.get(name)
        self._undo.append((obj, name, had, old))
        setattr(obj, name, new)

    def _restore(self):
        errs = []
        while self._undo:
            obj, name, had, old = self._undo.pop()
            try:
                if had:
                    setattr(obj, name, old)
                else:
                    delattr(obj, name)
            except Exception as e:          # keep restoring the rest
                errs.append('%s.%s: %r' % (getattr(obj, '__name__', obj), name, e))
        self.active = False
        _active[0] = None
        if errs:
            raise RuntimeError('could not restore: ' + '; '.join(errs))

    def __enter__(self):
        if _active[0] is not None:
            raise RuntimeError('nested Injector')
        _refresh_pristine()
        _active[0] = self
        _EXC[0] = InjectedInterrupt if self.spec.get('interrupt') else InjectedFault
        self.active = True
        try:
            self._install()
        except BaseException:
            self._restore()
            raise
        return self

    def __exit__(self, *exc):
        self._restore()
        _EXC[0] = InjectedFault
        return False

    # ------------------------------------------------------------------ installation
    def _install(self):
        pfile, compress, P8F, PNGF, lua, png = _pico()
        inj = self

        # encoder markers (classmethods)
        for cls in (P8F, PNGF):
            raw = vars(cls).get('to_file')
            func = raw.__func__ if isinstance(raw, (classmethod, staticmethod)) else getattr(cls, 'to_file').__func__

            def make(func):
                def to_file(cls_, game, outstr=None, *a, **kw):
                    if 'outstr' in kw and outstr is None:
                        outstr = kw.pop('outstr')
                    if outstr is not None and not isinstance(outstr, FaultStream):
                        outstr = FaultStream(outstr, inj, 'given')
                    inj.depth += 1
                    inj.encoder_calls += 1
                    try:
                        return func(cls_, game, outstr, *a, **kw)
                    finally:
                        inj.depth -= 1
                to_file.__wrapped__ = func
                return to_file
            self._patch(cls, 'to_file', classmethod(make(func)))

        # the temporary file used by pico8.game.file
        if 'tempfile' in vars(pfile):
            self._patch(pfile, 'tempfile', _TempfileShim(self))
        for nm in ('TemporaryFile', 'NamedTemporaryFile', 'SpooledTemporaryFile'):
            if nm in vars(pfile):
                self._patch(pfile, nm, getattr(_TempfileShim(self), nm))

        # files opened for writing by pico8.* modules
        def open_(file, mode='r', *a, **kw):
            fh = _REAL_OPEN(file, mode, *a, **kw)
            try:
                caller = sys._getframe(1).f_globals.get('__name__', '')
            except ValueError:
                caller = ''
            if (inj.active and isinstance(mode, str) and any(c in mode for c in 'wax+')
                    and (caller == 'pico8' or caller.startswith('pico8.'))):
                return FaultStream(fh, inj, 'opened')
            return fh
        self._patch(builtins, 'open', open_)

        kind = self.kind
        if kind in ('lua_writer_raises', 'lua_writer_unparseable') and self.spec.get('patch_class'):
            cls = getattr(lua, WRITER_NAMES.get(self.spec.get('cls'), self.spec.get('cls')))
            orig = getattr(cls, 'to_lines')
            self._patch(cls, 'to_lines', self._writer_to_lines(orig, per_call=True))
        elif kind == 'section_raises':
            import importlib
            modname, clsname, j = SECTION_TARGETS[self.spec['section']]
            cls = getattr(importlib.import_module(modname), clsname)
            meth = self.spec.get('method', 'to_lines')
            self._patch(cls, meth, self._method_fault(getattr(cls, meth), j, self.spec.get('after', 0),
                                                      '%s.%s' % (self.spec['section'], meth),
                                                      iterate=(meth == 'to_lines')))
        elif kind == 'compress_raises':
            orig_cc = compress.compress_code

            def compress_code(*a, **kw):
                if inj.depth > 0:
                    inj.fire('compress_code')
                return orig_cc(*a, **kw)
            self._patch(compress, 'compress_code', compress_code)
        elif kind == 'png_writer_raises':
            orig_w = png.Writer.write
            after_rows = self.spec.get('after_rows', 0)

            def write(self_, outfile, rows):
                if inj.depth <= 0:
                    return orig_w(self_, outfile, rows)

                def some_rows():
                    for i, row in enumerate(rows):
                        if i >= after_rows:
                            inj.fire('png.Writer.write after %d rows, %d stream writes' % (i, inj.count))
                        yield row
                    inj.fire('png.Writer.write after all rows')
                return orig_w(self_, outfile, some_rows())
            self._patch(png.Writer, 'write', write)

    # ------------------------------------------------------------------ method faults
    def _method_fault(self, orig, j, after, what, iterate):
        inj = self

        def faulty(self_, *a, **kw):
            if inj.depth <= 0:
                return orig(self_, *a, **kw)
            idx = inj.method_calls.get(what, 0)
            inj.method_calls[what] = idx + 1
            if idx != j:
                return orig(self_, *a, **kw)
            if not iterate:
                inj.fire('%s call %d' % (what, idx))

            def gen():
                n = 0
                for item in orig(self_, *a, **kw):
                    if n >= after:
                        inj.fire('%s call %d after %d items' % (what, idx, n))
                    yield item
                    n += 1
                inj.fire('%s call %d after all %d items' % (what, idx, n))
            return gen()
        return faulty

    def _writer_to_lines(self, orig, per_call):
        """A replacement for <writer>.to_lines(self) implementing the lua_writer_* kinds.
        per_call: the pass number is the number of earlier to_lines calls (class patch); otherwise
        it is taken from the instance (subclass made by writer_cls)."""
        inj = self
        spec = self.spec
        on_pass = spec.get('on_pass', 0)
        after = spec.get('after', 0)
        unparseable = self.kind == 'lua_writer_unparseable'
        bad = UNPARSEABLE_LINES[spec.get('variant', 0) % len(UNPARSEABLE_LINES)]
        at = spec.get('at', 'end')

        def to_lines(self_):
            if not inj.active or inj.depth <= 0:
                for line in orig(self_):
                    yield line
                return
            if per_call:
                p = inj.writer_instances
                inj.writer_instances += 1
            else:
                p = self_._verif_pass
            if unparseable:
                if at == 'start':
                    inj.note_fired('unparseable line first (pass %d)' % p)
                    yield bad
                last = None
                for line in orig(self_):
                    last = line
                    yield line
                if at != 'start':
                    if last is not None and not last.endswith(b'\n'):
                        yield b'\n'
                    inj.note_fired('unparseable line last (pass %d)' % p)
                    yield bad
                return
            n = 0
            for line in orig(self_):
                if p == on_pass and n >= after:
                    inj.fire('lua writer pass %d after %d lines' % (p, n))
                yield line
                n += 1
            if p == on_pass:
                inj.fire('lua writer pass %d after all %d lines' % (p, n))
        return to_lines

    def writer_cls(self, base_cls):
        """For library callers: the writer class to pass as lua_writer_cls.  Returns `base_cls`
        unchanged unless this Injector's kind is lua_writer_raises / lua_writer_unparseable (without
        patch_class); then a subclass of base_cls (LuaEchoWriter for None) that misbehaves."""
        if self.kind not in ('lua_writer_raises', 'lua_writer_unparseable') or self.spec.get('patch_class'):
            return base_cls
        from pico8.lua import lua
        base = base_cls if base_cls is not None else lua.LuaEchoWriter
        inj = self

        class FaultyWriter(base):
            def __init__(self_, *a, **kw):
                super().__init__(*a, **kw)
                self_._verif_pass = inj.writer_instances
                inj.writer_instances += 1
        FaultyWriter.to_lines = self._writer_to_lines(base.to_lines, per_call=False)
        FaultyWriter.__name__ = 'Faulty' + base.__name__
        return FaultyWriter


def raising_writer(base_cls, after, on_pass=0):
    """Stand-alone failing Lua writer class (no Injector needed): the on_pass-th instance raises
    InjectedFault after yielding `after` lines (or after all lines when there are fewer)."""
    from pico8.lua import lua
    base = base_cls if base_cls is not None else lua.LuaEchoWriter
    state = {'instances': 0, 'fired': False}

    class RaisingWriter(base):
        verif_state = state

        def __init__(self, *a, **kw):
            super().__init__(*a, **kw)
            self._verif_pass = state['instances']
            state['instances'] += 1

        def to_lines(self):
            n = 0
            for line in super().to_lines():
                if self._verif_pass == on_pass and n >= after:
                    state['fired'] = True
                    raise _EXC[0]('injected')
                yield line
                n += 1
            if self._verif_pass == on_pass:
                state['fired'] = True
                raise _EXC[0]('injected')
    return RaisingWriter


def unparseable_writer(base_cls, variant=0):
    """Stand-alone Lua writer class whose output ends with a line that does not parse."""
    from pico8.lua import lua
    base = base_cls if base_cls is not None else lua.LuaEchoWriter
    bad = UNPARSEABLE_LINES[variant % len(UNPARSEABLE_LINES)]

    class UnparseableWriter(base):
        def to_lines(self):
            last = None
            for line in super().to_lines():
                last = line
                yield line
            if last is not None and not last.endswith(b'\n'):
                yield b'\n'
            yield bad
    return UnparseableWriter
