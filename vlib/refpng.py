"""REFPNG - independent PNG decoder/encoder (zlib + CRC + unfilter); no pypng, no picotool.

Supports what .p8.png files use: 8-bit, colour types 2 (RGB) and 6 (RGBA), non-interlaced.
"""
import struct
import zlib

SIG = b'\x89PNG\r\n\x1a\n'


class PNGError(Exception):
    pass


def chunks(data):
    if data[:8] != SIG:
        raise PNGError('bad signature')
    pos = 8
    out = []
    while pos < len(data):
        if pos + 8 > len(data):
            raise PNGError('truncated chunk header')
        (n,) = struct.unpack('>I', data[pos:pos + 4])
        typ = data[pos + 4:pos + 8]
        body = data[pos + 8:pos + 8 + n]
        if len(body) != n or pos + 12 + n > len(data):
            raise PNGError('truncated chunk %r' % typ)
        (crc,) = struct.unpack('>I', data[pos + 8 + n:pos + 12 + n])
        if zlib.crc32(typ + body) & 0xffffffff != crc:
            raise PNGError('bad CRC in %r' % typ)
        out.append((typ, body))
        pos += 12 + n
        if typ == b'IEND':
            break
    if not out or out[-1][0] != b'IEND':
        raise PNGError('no IEND')
    if pos != len(data):
        raise PNGError('trailing bytes after IEND')
    return out


def _paeth(a, b, c):
    p = a + b - c
    pa, pb, pc = abs(p - a), abs(p - b), abs(p - c)
    if pa <= pb and pa <= pc:
        return a
    if pb <= pc:
        return b
    return c


def decode(data):
    """Returns (width, height, planes, rows) with rows a list of bytes (planes*width each)."""
    ch = chunks(data)
    if ch[0][0] != b'IHDR' or len(ch[0][1]) != 13:
        raise PNGError('first chunk is not IHDR')
    w, h, depth, ctype, comp, filt, inter = struct.unpack('>IIBBBBB', ch[0][1])
    if depth != 8 or ctype not in (2, 6) or comp != 0 or filt != 0 or inter != 0:
        raise PNGError('unsupported PNG flavour depth=%d type=%d interlace=%d' % (depth, ctype, inter))
    planes = 4 if ctype == 6 else 3
    idat = b''.join(body for typ, body in ch if typ == b'IDAT')
    try:
        raw = zlib.decompress(idat)
    except zlib.error as e:
        raise PNGError('bad zlib stream: %s' % e)
    stride = w * planes
    if len(raw) != (stride + 1) * h:
        raise PNGError('image data has %d bytes, expected %d' % (len(raw), (stride + 1) * h))
    rows = []
    prev = bytearray(stride)
    pos = 0
    for _y in range(h):
        ft = raw[pos]
        line = bytearray(raw[pos + 1:pos + 1 + stride])
        pos += 1 + stride
        if ft == 0:
            pass
        elif ft == 1:
            for i in range(planes, stride):
                line[i] = (line[i] + line[i - planes]) & 255
        elif ft == 2:
            for i in range(stride):
                line[i] = (line[i] + prev[i]) & 255
        elif ft == 3:
            for i in range(stride):
                a = line[i - planes] if i >= planes else 0
                line[i] = (line[i] + ((a + prev[i]) >> 1)) & 255
        elif ft == 4:
            for i in range(stride):
                a = line[i - planes] if i >= planes else 0
                c = prev[i - planes] if i >= planes else 0
                line[i] = (line[i] + _paeth(a, prev[i], c)) & 255
        else:
            raise PNGError('bad filter type %d' % ft)
        rows.append(bytes(line))
        prev = line
    return w, h, planes, rows


def _chunk(typ, body):
    return struct.pack('>I', len(body)) + typ + body + struct.pack('>I', zlib.crc32(typ + body) & 0xffffffff)


def encode(width, height, rows, planes=4):
    """Encode 8-bit RGB/RGBA rows (each planes*width bytes) as a PNG."""
    ctype = 6 if planes == 4 else 2
    raw = bytearray()
    for r in rows:
        if len(r) != width * planes:
            raise PNGError('row length')
        raw.append(0)
        raw.extend(r)
    return (SIG + _chunk(b'IHDR', struct.pack('>IIBBBBB', width, height, 8, ctype, 0, 0, 0)) +
            _chunk(b'IDAT', zlib.compress(bytes(raw), 6)) + _chunk(b'IEND', b''))
