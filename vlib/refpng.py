"""REFPNG - independent PNG decoder/encoder (zlib + CRC + unfilter); no pypng, no picotool.

Supports what .p8.png files use: 8-bit, colour types 2 (RGB) and 6 (RGBA), plain or Adam7-interlaced (picotool
re-uses the attributes of an existing destination, so what an image editor saved there comes back out).
"""
import struct
import zlib

SIG = b'\x89PNG\r\n\x1a\n'


class PNGError(Exception):
    pass


def chunks(data):
    if data[:8] != SIG:
        raise PNGError('bad signature')
    pos = 8
    out = []
    while pos < len(data):
        if pos + 8 > len(data):
            raise PNGError('truncated chunk header')
        (n,) = struct.unpack('>I', data[pos:pos + 4])
        typ = data[pos + 4:pos + 8]
        body = data[pos + 8:pos + 8 + n]
        if len(body) != n or pos + 12 + n > len(data):
            raise PNGError('truncated chunk %r' % typ)
        (crc,) = struct.unpack('>I', data[pos + 8 + n:pos + 12 + n])
        if zlib.crc32(typ + body) & 0xffffffff != crc:
            raise PNGError('bad CRC in %r' % typ)
        out.append((typ, body))
        pos += 12 + n
        if typ == b'IEND':
            break
    if not out or out[-1][0] != b'IEND':
        raise PNGError('no IEND')
    if pos != len(data):
        raise PNGError('trailing bytes after IEND')
    return out


def _paeth(a, b, c):
    p = a + b - c
    pa, pb, pc = abs(p - a), abs(p - b), abs(p - c)
    if pa <= pb and pa <= pc:
        return a
    if pb <= pc:
        return b
    return c


def decode(data):
    """Returns (width, height, planes, rows) with rows a list of bytes (planes*width each)."""
    ch = chunks(data)
    if ch[0][0] != b'IHDR' or len(ch[0][1]) != 13:
        raise PNGError('first chunk is not IHDR')
    w, h, depth, ctype, comp, filt, inter = struct.unpack('>IIBBBBB', ch[0][1])
    if depth != 8 or ctype not in (2, 6) or comp != 0 or filt != 0 or inter not in (0, 1):
        raise PNGError('unsupported PNG flavour depth=%d type=%d interlace=%d' % (depth, ctype, inter))
    planes = 4 if ctype == 6 else 3
    idat = b''.join(body for typ, body in ch if typ == b'IDAT')
    try:
        raw = zlib.decompress(idat)
    except zlib.error as e:
        raise PNGError('bad zlib stream: %s' % e)
    if inter == 0:
        rows, pos = _unfilter_pass(raw, 0, w, h, planes)
    else:
        rows = [bytearray(w * planes) for _ in range(h)]
        pos = 0
        for x0, y0, dx, dy in ADAM7:
            pw = (w - x0 + dx - 1) // dx if w > x0 else 0
            ph = (h - y0 + dy - 1) // dy if h > y0 else 0
            if pw == 0 or ph == 0:
                continue
            sub, pos = _unfilter_pass(raw, pos, pw, ph, planes)
            for j, line in enumerate(sub):
                row = rows[y0 + j * dy]
                for i in range(pw):
                    x = x0 + i * dx
                    row[x * planes:(x + 1) * planes] = line[i * planes:(i + 1) * planes]
        rows = [bytes(r) for r in rows]
    if pos != len(raw):
        raise PNGError('image data has %d bytes, expected %d' % (len(raw), pos))
    return w, h, planes, rows


ADAM7 = ((0, 0, 8, 8), (4, 0, 8, 8), (0, 4, 4, 8), (2, 0, 4, 4), (0, 2, 2, 4), (1, 0, 2, 2), (0, 1, 1, 2))


def _unfilter_pass(raw, pos, w, h, planes):
    stride = w * planes
    if len(raw) < pos + (stride + 1) * h:
        raise PNGError('image data has %d bytes, need at least %d' % (len(raw), pos + (stride + 1) * h))
    rows = []
    prev = bytearray(stride)
    for _y in range(h):
        ft = raw[pos]
        line = bytearray(raw[pos + 1:pos + 1 + stride])
        pos += 1 + stride
        if ft == 0:
            pass
        elif ft == 1:
            for i in range(planes, stride):
                line[i] = (line[i] + line[i - planes]) & 255
        elif ft == 2:
            for i in range(stride):
                line[i] = (line[i] + prev[i]) & 255
        elif ft == 3:
            for i in range(stride):
                a = line[i - planes] if i >= planes else 0
                line[i] = (line[i] + ((a + prev[i]) >> 1)) & 255
        elif ft == 4:
            for i in range(stride):
                a = line[i - planes] if i >= planes else 0
                c = prev[i - planes] if i >= planes else 0
                line[i] = (line[i] + _paeth(a, prev[i], c)) & 255
        else:
            raise PNGError('bad filter type %d' % ft)
        rows.append(bytes(line))
        prev = line
    return rows, pos


def _chunk(typ, body):
    return struct.pack('>I', len(body)) + typ + body + struct.pack('>I', zlib.crc32(typ + body) & 0xffffffff)


def _filter_line(ft, line, prev, planes):
    n = len(line)
    if ft == 0:
        return bytes(line)
    out = bytearray(n)
    for i in range(n):
        a = line[i - planes] if i >= planes else 0
        b = prev[i]
        c = prev[i - planes] if i >= planes else 0
        if ft == 1:
            p = a
        elif ft == 2:
            p = b
        elif ft == 3:
            p = (a + b) >> 1
        else:
            p = _paeth(a, b, c)
        out[i] = (line[i] - p) & 255
    return bytes(out)


def _filtered(rows, planes, filters):
    raw = bytearray()
    prev = bytes(len(rows[0])) if rows else b''
    for y, r in enumerate(rows):
        ft = filters[y % len(filters)]
        raw.append(ft)
        raw.extend(_filter_line(ft, r, prev, planes))
        prev = r
    return raw


def encode(width, height, rows, planes=4, interlace=False, filters=(0,), ancillary=(), idat_split=0, level=6):
    """Encode 8-bit RGB/RGBA rows (each planes*width bytes) as a PNG.

    interlace: Adam7; filters: filter types cycled over the scanlines (of each pass); ancillary: (type, body)
    chunks placed between IHDR and IDAT; idat_split: cut the zlib stream into IDAT chunks of this many bytes."""
    ctype = 6 if planes == 4 else 2
    for r in rows:
        if len(r) != width * planes:
            raise PNGError('row length')
    if not interlace:
        raw = _filtered([bytes(r) for r in rows], planes, filters)
    else:
        raw = bytearray()
        for x0, y0, dx, dy in ADAM7:
            if width <= x0 or height <= y0:
                continue
            sub = []
            for y in range(y0, height, dy):
                r = rows[y]
                sub.append(b''.join(bytes(r[x * planes:(x + 1) * planes]) for x in range(x0, width, dx)))
            raw += _filtered(sub, planes, filters)
    z = zlib.compress(bytes(raw), level)
    if idat_split:
        idats = b''.join(_chunk(b'IDAT', z[i:i + idat_split]) for i in range(0, len(z), idat_split))
    else:
        idats = _chunk(b'IDAT', z)
    return (SIG + _chunk(b'IHDR', struct.pack('>IIBBBBB', width, height, 8, ctype, 0, 0, 1 if interlace else 0)) +
            b''.join(_chunk(t, b) for t, b in ancillary) + idats + _chunk(b'IEND', b''))
