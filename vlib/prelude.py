"""Operations picotool must REJECT, run just before the operation under test (design rule 6: a failed operation must
not change how the next one behaves).  Everything here is tiny; every expected failure is swallowed - whether these
inputs are rejected is other clauses' business, here they only serve to leave behind whatever a failure leaves."""
import io

BAD_PROGRAMS = (b'if (a) x =\ny = 2\n', b'if (a) b() else c(\n', b'x = {1, 2\ny = 3\n', b'function f(\n',
                b'while a do if (b) c(\n', b'x = "unterminated\\', b'--[[ never closed\n', b'y = [[ never closed\n',
                b'goto\n', b'local = 1\n')

_n = [0]


def lua():
    """One failing Lua.from_lines call (parser or lexer error), rotating through BAD_PROGRAMS."""
    from pico8.lua import lua as plua
    src = BAD_PROGRAMS[_n[0] % len(BAD_PROGRAMS)]
    _n[0] += 1
    try:
        plua.Lua.from_lines([src], version=8)
    except Exception:
        pass


def files():
    """Failing cart reads (not a cart, truncated cart, unknown section) and a failing decompression."""
    from pico8.game.formatter.p8 import P8Formatter
    from pico8.game.formatter.p8png import P8PNGFormatter
    from pico8.game import compress
    k = _n[0] % 4
    _n[0] += 1
    try:
        if k == 0:
            P8Formatter.from_file(io.BytesIO(b'not a cart\n'))
        elif k == 1:
            P8Formatter.from_file(io.BytesIO(b'pico-8 cartridge // http://www.pico-8.com\nversion 8\n__lua__\nif (a) x =\n__gfx__\n00\n'))
        elif k == 2:
            P8PNGFormatter.from_file(io.BytesIO(b'\x89PNG\r\n\x1a\nnot really'))
        else:
            compress.decompress_code(b':c:\x00\x00\x10\x00\x00' + b'\xff\x00' * 3)
    except Exception:
        pass
