#!/venv/bin/python
"""Regenerate MANIFEST.json from the check modules' metadata (development aid)."""
import importlib
import json
import os
import sys

VERIF = os.path.dirname(os.path.dirname(os.path.abspath(__file__)))
sys.path.insert(0, '/repo')
sys.path.insert(1, VERIF)

PENDING_REASON = {}

BASELINE_CMD = 'cd /repo && /venv/bin/python -m pytest -ra -q -p no:cacheprovider --timeout=900 --continue-on-collection-errors'


def main():
    props = [json.loads(l) for l in open(os.path.join(VERIF, 'properties.jsonl'))]
    checks = []
    na = []
    for p in props:
        pid = p['id']
        path = os.path.join(VERIF, 'checks', pid.lower() + '.py')
        if not os.path.exists(path):
            na.append({'property_id': pid,
                       'reason': PENDING_REASON.get(pid, 'no check registered yet: the generator/oracle for this property is still being built (see DESIGN.md section 4); nothing is claimed for it')})
            continue
        mod = importlib.import_module('checks.' + pid.lower())
        checks.append({
            'property_id': pid,
            'quick_cmd': './check %s --tier quick' % pid,
            'thorough_cmd': './check %s --tier thorough' % pid,
            'evidence_file': 'evidence/%s.json' % pid,
            'replay_cmd_template': './check %s --replay {path}' % pid,
            'engine': 'pbt-runner',
            'level_claimed': {
                'category': getattr(mod, 'LEVEL', 'exploration'),
                'text': getattr(mod, 'LEVEL_TEXT', ''),
                'design_ref': 'DESIGN.md section 4, ' + pid,
            },
            'level_note': getattr(mod, 'LEVEL_NOTE', ''),
            'technique': getattr(mod, 'TECHNIQUE', 'property-based testing (Hypothesis) against an independent oracle'),
        })
    man = {
        'version': 1,
        'setup_cmd': './setup.sh',
        'hooks': {
            'guard': 'PICOTOOL_VERIF',
            'enable': 'no source hooks: fault injection and file-access recording are installed in-process by the harness (monkeypatching tempfile/open inside the check process); the guard variable is unused by /repo',
            'baseline_off_cmd': BASELINE_CMD,
            'source_commits': [],
            'add_only': True,
        },
        'engines': [{
            'name': 'pbt-runner',
            'path': 'vlib/runner.py',
            'serves_properties': [c['property_id'] for c in checks],
            'kind_free_text': 'Hypothesis 6.168 property-based tests and rule-based state machines, exhaustive enumeration of the finite sub-domains, injected faults; independent reference oracles in vlib/',
        }],
        'checks': checks,
        'not_applicable': na,
        'notes': 'Every check imports picotool from /repo\'s working tree at run time (pure Python, no build step). VERIF_SEED selects the Hypothesis seed; exit 2 means harness error, never a verdict. Known findings / fixed defects: known_findings.txt.',
    }
    with open(os.path.join(VERIF, 'MANIFEST.json'), 'w') as fh:
        json.dump(man, fh, indent=1)
        fh.write('\n')
    try:
        import jsonschema
        jsonschema.validate(man, json.load(open('/root/.vp/MANIFEST.schema.json')))
        print('manifest valid;', len(checks), 'checks,', len(na), 'not claimed')
    except ImportError:
        print('manifest written (jsonschema not available);', len(checks), 'checks')


if __name__ == '__main__':
    main()
