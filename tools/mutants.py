#!/venv/bin/python
"""Sensitivity validation (development aid, not a registered check).

Each mutant is a small semantic change to picotool expressed as a text substitution.  The
runner copies /repo/pico8 (+tests) to a scratch directory outside /repo and /verif, applies one
mutant, optionally runs the repository's test suite there (--pytest), runs the named
property's quick check with VERIF_REPO pointing at the copy, and removes the copy.

usage: tools/mutants.py [--pytest] [--only ID] [--prop Cxx] [--tier quick]
"""
import argparse
import os
import shutil
import subprocess
import sys
import tempfile
import time

VERIF = os.path.dirname(os.path.dirname(os.path.abspath(__file__)))
sys.path.insert(0, VERIF)
from mutants.table import MUTANTS  # noqa


def run_one(m, args):
    scratch = tempfile.mkdtemp(prefix='picomut_', dir='/tmp')
    try:
        shutil.copytree('/repo/pico8', os.path.join(scratch, 'pico8'))
        path = os.path.join(scratch, m['file'])
        src = open(path).read()
        if src.count(m['old']) != 1:
            return 'BADMUTANT(old text occurs %d times)' % src.count(m['old']), 0
        open(path, 'w').write(src.replace(m['old'], m['new']))
        tests = ''
        if args.pytest:
            shutil.copytree('/repo/tests', os.path.join(scratch, 'tests'))
            for f in ('setup.py', 'setup.cfg', 'pytest.ini', 'tox.ini', 'conftest.py'):
                if os.path.exists('/repo/' + f):
                    shutil.copy('/repo/' + f, scratch)
            r = subprocess.run(['/venv/bin/python', '-m', 'pytest', '-q', '-x', '-p', 'no:cacheprovider'],
                               cwd=scratch, capture_output=True, text=True,
                               env=dict(os.environ, PYTHONPATH=scratch))
            tests = ' tests=%s' % ('pass' if r.returncode == 0 else 'FAIL')
        results = []
        for prop in m['props']:
            if args.prop and prop != args.prop:
                continue
            t0 = time.time()
            r = subprocess.run([os.path.join(VERIF, 'check'), prop, '--tier', args.tier],
                               capture_output=True, text=True,
                               env=dict(os.environ, VERIF_REPO=scratch))
            verdict = {0: 'MISSED', 1: 'caught', 2: 'HARNESS-ERROR'}.get(r.returncode, 'rc%d' % r.returncode)
            msg = ''
            for line in r.stdout.splitlines():
                if line.strip().startswith('violated:'):
                    msg = line.strip()[:140]
                    break
            if r.returncode == 2:
                msg = (r.stderr.strip().splitlines() or [''])[-1][:200]
            results.append('%s:%s(%.0fs) %s' % (prop, verdict, time.time() - t0, msg))
        return '; '.join(results) + tests, 0
    finally:
        shutil.rmtree(scratch, ignore_errors=True)


def main():
    ap = argparse.ArgumentParser()
    ap.add_argument('--pytest', action='store_true')
    ap.add_argument('--only')
    ap.add_argument('--prop')
    ap.add_argument('--tier', default='quick')
    args = ap.parse_args()
    for m in MUTANTS:
        if args.only and args.only not in m['id']:
            continue
        if args.prop and args.prop not in m['props']:
            continue
        res, _ = run_one(m, args)
        print('%-28s %s' % (m['id'], res))
        sys.stdout.flush()


if __name__ == '__main__':
    main()
