#!/venv/bin/python
"""Sensitivity validation for C12 (development aid): like tools/mutants.py, over mutants/c12_mutants.py.

Each mutant is applied to a scratch copy of /repo/pico8 under /tmp, `./check C12` is run with
VERIF_REPO pointing at the copy, and the copy is removed.  The confirmed-defect shapes are
excluded (VERIF_C12_AVOID) unless --no-avoid is given, so that a "caught" verdict is due to the
mutant and not to the defects already present in the unmutated tree.

usage: tools/mutants_c12.py [--pytest] [--only ID] [--tier quick] [--no-avoid] [--baseline]
"""
import argparse
import importlib.util
import os
import sys

VERIF = os.path.dirname(os.path.dirname(os.path.abspath(__file__)))
sys.path.insert(0, VERIF)
from mutants.c12_mutants import MUTANTS_C12  # noqa
_spec = importlib.util.spec_from_file_location('tools_mutants', os.path.join(VERIF, 'tools', 'mutants.py'))
base = importlib.util.module_from_spec(_spec)   # tools/mutants.py: run_one
_spec.loader.exec_module(base)

AVOID = 'prefix_sibling,carts_prefix,dotdot_pattern'
NOOP = {'id': 'baseline-unmutated', 'props': ['C12'], 'file': 'pico8/build/build.py',
        'old': "DEFAULT_LUA_PATH = '?;?.lua'\n", 'new': "DEFAULT_LUA_PATH = '?;?.lua'\n"}


def main():
    ap = argparse.ArgumentParser()
    ap.add_argument('--pytest', action='store_true')
    ap.add_argument('--only')
    ap.add_argument('--prop', default='C12')
    ap.add_argument('--tier', default='quick')
    ap.add_argument('--no-avoid', action='store_true')
    ap.add_argument('--baseline', action='store_true', help='also run the unmutated copy (must be MISSED)')
    args = ap.parse_args()
    if not args.no_avoid:
        os.environ['VERIF_C12_AVOID'] = AVOID
    for m in ([NOOP] if args.baseline else []) + MUTANTS_C12:
        if args.only and args.only not in m['id']:
            continue
        res, _ = base.run_one(m, args)
        print('%-34s %s' % (m['id'], res))
        sys.stdout.flush()


if __name__ == '__main__':
    main()
