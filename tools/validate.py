"""Validate MANIFEST.json and evidence/*.json against the schemas (run with python3-vt)."""
import glob
import json
import sys
import jsonschema
ok = True
man = json.load(open('/verif/MANIFEST.json'))
try:
    jsonschema.validate(man, json.load(open('/root/.vp/MANIFEST.schema.json')))
    print('MANIFEST ok: %d checks, %d not_applicable' % (len(man['checks']), len(man.get('not_applicable', []))))
except Exception as e:
    ok = False
    print('MANIFEST INVALID', e)
sch = json.load(open('/root/.vp/EVIDENCE.schema.json'))
for f in sorted(glob.glob('/verif/evidence/*.json')):
    try:
        jsonschema.validate(json.load(open(f)), sch)
        print(f, 'ok')
    except Exception as e:
        ok = False
        print(f, 'INVALID', str(e)[:300])
sys.exit(0 if ok else 1)
