#!/venv/bin/python
"""Sensitivity validation for C13 (development aid): like tools/mutants.py, over mutants/c13_mutants.py.

Each mutant is applied to a scratch copy of /repo/pico8 under /tmp, `./check C13` is run with
VERIF_REPO pointing at the copy, and the copy is removed.

usage: tools/mutants_c13.py [--pytest] [--only ID] [--tier quick] [--equivalent]
"""
import argparse
import importlib.util
import os
import sys

VERIF = os.path.dirname(os.path.dirname(os.path.abspath(__file__)))
sys.path.insert(0, VERIF)
from mutants.c13_mutants import MUTANTS_C13, EQUIVALENT_C13  # noqa
_spec = importlib.util.spec_from_file_location('tools_mutants', os.path.join(VERIF, 'tools', 'mutants.py'))
base = importlib.util.module_from_spec(_spec)   # tools/mutants.py: run_one
_spec.loader.exec_module(base)


def main():
    ap = argparse.ArgumentParser()
    ap.add_argument('--pytest', action='store_true')
    ap.add_argument('--only')
    ap.add_argument('--prop', default='C13')
    ap.add_argument('--tier', default='quick')
    ap.add_argument('--equivalent', action='store_true', help='also run the mutants recorded as equivalent')
    args = ap.parse_args()
    for m in MUTANTS_C13 + (EQUIVALENT_C13 if args.equivalent else []):
        if args.only and args.only not in m['id']:
            continue
        res, _ = base.run_one(m, args)
        print('%-36s %s' % (m['id'], res))
        sys.stdout.flush()


if __name__ == '__main__':
    main()
