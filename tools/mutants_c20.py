#!/venv/bin/python
"""Sensitivity run for the C20 mutants (mutants/c20_mutants.py); same procedure as tools/mutants.py:
copy /repo/pico8 to a scratch directory under /tmp, apply one text substitution, run `./check C20` with
VERIF_REPO pointing at the copy, delete the copy.

The known junction defect (included file without final newline glued to the next line) would make every
run a violation, so the generator is steered around it (VERIF_C20_AVOID=nofinalnl) unless --no-avoid.

usage: tools/mutants_c20.py [--pytest] [--only ID] [--tier quick] [--no-avoid]
"""
import argparse
import importlib.util
import os
import sys

VERIF = os.path.dirname(os.path.dirname(os.path.abspath(__file__)))
sys.path.insert(0, VERIF)
from mutants.c20_mutants import MUTANTS_C20  # noqa

_spec = importlib.util.spec_from_file_location('verif_tools_mutants', os.path.join(VERIF, 'tools', 'mutants.py'))
_base = importlib.util.module_from_spec(_spec)
_spec.loader.exec_module(_base)


def main():
    ap = argparse.ArgumentParser()
    ap.add_argument('--pytest', action='store_true')
    ap.add_argument('--only')
    ap.add_argument('--tier', default='quick')
    ap.add_argument('--no-avoid', action='store_true')
    args = ap.parse_args()
    args.prop = 'C20'
    if not args.no_avoid:
        os.environ['VERIF_C20_AVOID'] = 'nofinalnl'
    for m in MUTANTS_C20:
        if args.only and args.only not in m['id']:
            continue
        res, _ = _base.run_one(m, args)
        print('%-40s %s' % (m['id'], res))
        sys.stdout.flush()


if __name__ == '__main__':
    main()
