#!/venv/bin/python
"""Run the registered checks against the seeded breaking changes in /verif/seeded/<id>/ (development aid).

For each seeded change: copy /repo (pico8 + tests) to a scratch directory outside /repo and /verif, apply
patch.diff, confirm (a) the repository's tests still pass, (b) the demonstration fails with the change and
passes on /repo, then run the property's quick (and optionally thorough) check with VERIF_REPO pointing at the
scratch copy and expect exit 1.  The scratch copy is removed afterwards.  Results go to seeded/RESULTS.md.

usage: tools/seeded.py [--only ID] [--tier quick|thorough] [--no-verify] [--props C01,C06]
"""
import argparse
import glob
import json
import os
import shutil
import subprocess
import sys
import tempfile
import time

VERIF = os.path.dirname(os.path.dirname(os.path.abspath(__file__)))
BASE = os.environ.get('VP_RUN_REPO') or os.environ.get('SEEDED_REPO') or '/repo'     # the unchanged tree


def sh(cmd, **kw):
    return subprocess.run(cmd, capture_output=True, text=True, **kw)


def run_one(d, args):
    meta = json.load(open(os.path.join(d, 'meta.json')))
    scratch = tempfile.mkdtemp(prefix='picoseed_', dir='/tmp')
    res = {'id': os.path.basename(d), 'property': meta['property']}
    try:
        shutil.copytree(BASE + '/pico8', os.path.join(scratch, 'pico8'))
        shutil.copytree(BASE + '/tests', os.path.join(scratch, 'tests'))
        for f in ('setup.py', 'README.md'):
            if os.path.exists(BASE + '/' + f):
                shutil.copy(BASE + '/' + f, scratch)
        r = sh(['patch', '-p1', '--no-backup-if-mismatch', '-i', os.path.join(d, 'patch.diff')], cwd=scratch)
        if r.returncode != 0:
            res['error'] = 'patch does not apply: ' + r.stdout[-200:]
            return res
        if not args.no_verify:
            r = sh(['/venv/bin/python', '-m', 'pytest', '-q', '-x', '-p', 'no:cacheprovider'], cwd=scratch,
                   env=dict(os.environ, PYTHONPATH=scratch))
            res['tests_pass'] = r.returncode == 0
            demo = os.path.join(d, meta.get('demo', 'demo.py'))
            r1 = sh(['/venv/bin/python', demo], env=dict(os.environ, PYTHONPATH=scratch), cwd='/tmp')
            r0 = sh(['/venv/bin/python', demo], env=dict(os.environ, PYTHONPATH=BASE), cwd='/tmp')
            res['demo_fails_with_change'] = r1.returncode != 0
            res['demo_passes_without'] = r0.returncode == 0
        props = args.props.split(',') if args.props else meta.get('check_with', [meta['property']])
        res['checks'] = {}
        for prop in props:
            t0 = time.time()
            r = sh([os.path.join(VERIF, 'check'), prop, '--tier', args.tier],
                   env=dict(os.environ, VERIF_REPO=scratch))
            msg = ''
            for line in r.stdout.splitlines():
                if line.strip().startswith('violated:'):
                    msg = line.strip()[:160]
                    break
            if r.returncode == 2:
                msg = (r.stderr.strip().splitlines() or [''])[-1][:200]
            res['checks'][prop] = {'verdict': {0: 'MISSED', 1: 'caught', 2: 'HARNESS-ERROR'}.get(r.returncode, str(r.returncode)),
                                   'seconds': round(time.time() - t0), 'first': msg}
        return res
    finally:
        shutil.rmtree(scratch, ignore_errors=True)


def main():
    ap = argparse.ArgumentParser()
    ap.add_argument('--only')
    ap.add_argument('--tier', default='quick')
    ap.add_argument('--no-verify', action='store_true')
    ap.add_argument('--props')
    args = ap.parse_args()
    rows = []
    for d in sorted(glob.glob(os.path.join(VERIF, 'seeded', '*'))):
        if not os.path.isdir(d) or not os.path.exists(os.path.join(d, 'meta.json')):
            continue
        if args.only and not any(o in os.path.basename(d) for o in args.only.split(",")):
            continue
        meta = json.load(open(os.path.join(d, 'meta.json')))
        if meta.get('status') == 'rejected':
            print(json.dumps({'id': os.path.basename(d), 'property': meta['property'], 'rejected': meta['rejected_because']}))
            continue
        res = run_one(d, args)
        rows.append(res)
        print(json.dumps(res))
        sys.stdout.flush()
    return rows


if __name__ == '__main__':
    main()
