#!/venv/bin/python
"""Import a seeded change produced by a sub-agent from /tmp/seedout/<ID>/ into /verif/seeded/<name>/."""
import json
import os
import shutil
import sys

prop, variant, name, needs = sys.argv[1], sys.argv[2], sys.argv[3], sys.argv[4]
summary = sys.argv[5] if len(sys.argv) > 5 else ''
src = os.path.join(os.environ.get('SEED_SRC', '/tmp/seedout'), prop)
dst = '/verif/seeded/%s-%s' % (prop, name)
os.makedirs(dst, exist_ok=True)
shutil.copy(os.path.join(src, '%s.diff' % variant), os.path.join(dst, 'patch.diff'))
shutil.copy(os.path.join(src, 'demo_%s.py' % variant), os.path.join(dst, 'demo.py'))
meta = {'property': prop, 'summary': summary, 'needs_to_manifest': needs, 'demo': 'demo.py',
        'origin': 'independent sub-agent given only the property text and a scratch worktree of /repo',
        'what_was_run': 'tools/seeded.py: patch applied to a scratch copy of /repo; repository tests run there; demo.py '
                        'run with and without the change; the property\'s check run with VERIF_REPO=<scratch copy>'}
json.dump(meta, open(os.path.join(dst, 'meta.json'), 'w'), indent=1)
print('imported', dst)
