#!/venv/bin/python
"""Sensitivity validation for C11 (development aid): tools/mutants.py for the list in
mutants/c11_mutants.py.  Copies /repo/pico8 to a scratch directory under /tmp, applies one mutant,
optionally runs the repository tests there (--pytest), runs ./check C11 with VERIF_REPO=<copy>, removes
the copy.

usage: tools/mutants_c11.py [--pytest] [--only ID] [--tier quick]
"""
import argparse
import importlib.util
import os
import sys

VERIF = os.path.dirname(os.path.dirname(os.path.abspath(__file__)))
sys.path.insert(0, VERIF)
from mutants.c11_mutants import MUTANTS_C11  # noqa

_spec = importlib.util.spec_from_file_location('verif_tools_mutants', os.path.join(VERIF, 'tools', 'mutants.py'))
_base = importlib.util.module_from_spec(_spec)
_spec.loader.exec_module(_base)


def main():
    ap = argparse.ArgumentParser()
    ap.add_argument('--pytest', action='store_true')
    ap.add_argument('--only')
    ap.add_argument('--prop')
    ap.add_argument('--tier', default='quick')
    args = ap.parse_args()
    for m in MUTANTS_C11:
        if args.only and args.only not in m['id']:
            continue
        res, _ = _base.run_one(m, args)
        print('%-32s %s' % (m['id'], res))
        sys.stdout.flush()


if __name__ == '__main__':
    main()
