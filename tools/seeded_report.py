#!/venv/bin/python
"""Write seeded/RESULTS.md from the JSON lines printed by tools/seeded.py (development aid)."""
import json
import os
import sys

VERIF = os.path.dirname(os.path.dirname(os.path.abspath(__file__)))
rows = {}
for path in sys.argv[1:]:
    for line in open(path):
        try:
            d = json.loads(line)
        except Exception:
            continue
        rows[d['id']] = d
out = ['# Seeded breaking changes: what the quick tier of each check reports',
       '',
       'Each directory `seeded/<id>/` holds `patch.diff` (a change to picotool written by an independent sub-agent that was',
       'given only the property text and a scratch worktree), `demo.py` (exits 1 with the change, 0 without) and `meta.json`.',
       'This table is produced by `tools/seeded.py` + `tools/seeded_report.py`: the patch is applied to a scratch copy of',
       '/repo, the repository tests are run there (must pass), the demo is run with and without the change, and the',
       "property's quick check is run with `VERIF_REPO` pointing at the copy (must exit 1).",
       '',
       '| seeded change | property | needs, to manifest | tests pass | demo fails with / passes without | quick check | first violation reported |',
       '|---|---|---|---|---|---|---|']
n = caught = 0
rejected = []
for d in sorted(os.listdir(os.path.join(VERIF, 'seeded'))):
    mp = os.path.join(VERIF, 'seeded', d, 'meta.json')
    if not os.path.exists(mp):
        continue
    meta = json.load(open(mp))
    r = rows.get(d, {})
    if meta.get('status') == 'rejected':
        rejected.append('- `%s` (%s): %s' % (d, meta['property'], meta['rejected_because']))
        continue
    checks = r.get('checks', {})
    verdict = ', '.join('%s %s (%ss)' % (k, v['verdict'], v['seconds']) for k, v in checks.items()) or 'not run'
    first = '; '.join(v['first'].replace('violated: ', '')[:110].replace('|', '\\|') for v in checks.values())
    n += 1
    caught += all(v['verdict'] == 'caught' for v in checks.values()) and bool(checks)
    out.append('| %s | %s | %s | %s | %s / %s | %s | %s |' % (
        d, meta['property'], meta['needs_to_manifest'].replace('|', '\\|'), r.get('tests_pass', '?'),
        r.get('demo_fails_with_change', '?'), r.get('demo_passes_without', '?'), verdict, first))
out.insert(8, '%d seeded changes, %d caught by the quick tier of the owning check.' % (n, caught))
out.insert(9, '')
if rejected:
    out += ['', '## Changes not kept as sensitivity cases', '',
            'These were produced by the sub-agents and reproduce as described, but manifest only outside the domain the',
            'property quantifies over; the checks are deliberately not extended to them:', ''] + rejected
open(os.path.join(VERIF, 'seeded', 'RESULTS.md'), 'w').write('\n'.join(out) + '\n')
print(n, caught)
