#!/venv/bin/python
"""Try the C17 mutants (mutants/c17_mutants.py) - development aid modelled on tools/mutants.py.

Each mutant is applied to a scratch copy of /repo/pico8 (outside /repo and /verif), the C17 check
is run with VERIF_REPO pointing at the copy, and the copy is removed.

The unchanged tree violates C17 at the sheet/map edges, which would make every mutant look
"caught".  Two ways around it:
  --avoid TAGS   (default sprite_edge,rect_bottom) sets VERIF_C17_AVOID so the generators stay
                 clear of those shapes;
  --with-fix     first applies CANDIDATE_FIX (the obvious repair of the two conditions) to the copy
                 and runs the check with nothing avoided.
`--baseline` runs the check on the unmutated copy (with --with-fix: shows the check is quiet on a
repaired tree with the complete generators).

usage: tools/c17_mutants.py [--pytest] [--only ID] [--tier quick] [--avoid TAGS | --with-fix] [--baseline]
"""
import argparse
import os
import shutil
import subprocess
import sys
import tempfile
import time

VERIF = os.path.dirname(os.path.dirname(os.path.abspath(__file__)))
sys.path.insert(0, VERIF)
from mutants.c17_mutants import MUTANTS_C17  # noqa

CANDIDATE_FIX = [
    ('pico8/gfx/gfx.py',
     "((first_y_coord + y) > 128) or\n                        ((first_x_coord + x) > 128)):",
     "((first_y_coord + y) >= 128) or\n                        ((first_x_coord + x) >= 128)):"),
    ('pico8/map/map.py',
     "if ((tile_y + y) > 127) or ((tile_x + x) > 127):",
     "if ((tile_y + y) > 63) or ((tile_x + x) > 127):"),
]


def substitute(scratch, file, old, new):
    path = os.path.join(scratch, file)
    src = open(path).read()
    if src.count(old) != 1:
        return 'old text occurs %d times in %s' % (src.count(old), file)
    open(path, 'w').write(src.replace(old, new))
    return None


def run_one(m, args):
    scratch = tempfile.mkdtemp(prefix='picomut_c17_', dir='/tmp')
    try:
        shutil.copytree('/repo/pico8', os.path.join(scratch, 'pico8'))
        if args.with_fix:
            for f, old, new in CANDIDATE_FIX:
                err = substitute(scratch, f, old, new)
                if err:
                    return 'BADFIX(%s)' % err
        if m is not None:
            err = substitute(scratch, m['file'], m['old'], m['new'])
            if err:
                return 'BADMUTANT(%s)' % err
        tests = ''
        if args.pytest:
            shutil.copytree('/repo/tests', os.path.join(scratch, 'tests'))
            for f in ('setup.py', 'setup.cfg', 'pytest.ini', 'tox.ini', 'conftest.py'):
                if os.path.exists('/repo/' + f):
                    shutil.copy('/repo/' + f, scratch)
            r = subprocess.run(['/venv/bin/python', '-m', 'pytest', '-q', '-x', '-p', 'no:cacheprovider'],
                               cwd=scratch, capture_output=True, text=True,
                               env=dict(os.environ, PYTHONPATH=scratch))
            tests = ' tests=%s' % ('pass' if r.returncode == 0 else 'FAIL')
        env = dict(os.environ, VERIF_REPO=scratch)
        env['VERIF_C17_AVOID'] = '' if args.with_fix else args.avoid
        t0 = time.time()
        r = subprocess.run([os.path.join(VERIF, 'check'), 'C17', '--tier', args.tier],
                           capture_output=True, text=True, env=env)
        verdict = {0: 'MISSED' if m is not None else 'quiet', 1: 'caught' if m is not None else 'VIOLATION',
                   2: 'HARNESS-ERROR'}.get(r.returncode, 'rc%d' % r.returncode)
        msg = ''
        lines = r.stdout.splitlines()
        for line in lines:
            if line.strip().startswith('violated:'):
                msg = line.strip()[:150]
                break
        if r.returncode == 2:
            msg = ([ln for ln in lines if 'HARNESS-ERROR' in ln] or
                   (r.stderr.strip().splitlines() or [''])[-1:])[0][:200]
        nviol = sum(1 for ln in lines if ln.startswith('VIOLATION'))
        return 'C17:%s(%.0fs, %d violation lines) %s%s' % (verdict, time.time() - t0, nviol, msg, tests)
    finally:
        shutil.rmtree(scratch, ignore_errors=True)


def main():
    ap = argparse.ArgumentParser()
    ap.add_argument('--pytest', action='store_true')
    ap.add_argument('--only')
    ap.add_argument('--tier', default='quick')
    ap.add_argument('--avoid', default='sprite_edge,rect_bottom')
    ap.add_argument('--with-fix', action='store_true')
    ap.add_argument('--baseline', action='store_true')
    args = ap.parse_args()
    if args.baseline:
        print('%-28s %s' % ('(no mutant)', run_one(None, args)))
        sys.stdout.flush()
    for m in MUTANTS_C17:
        if args.only and args.only not in m['id']:
            continue
        print('%-28s %s' % (m['id'], run_one(m, args)))
        sys.stdout.flush()


if __name__ == '__main__':
    main()
