"""Dev aid: enumerate C07 failures without stopping; bucket by clause."""
import sys, collections
sys.path.insert(0, '/verif')
from vlib import runner
runner._setup_paths()
from vlib.choices import Choices, expand
from vlib import lexatoms
from checks import c07
buckets = collections.defaultdict(list)
n = 0
texts = [t for (t, a, b, h) in c07.pair_texts()]
avoid={"esc_z"}
for i in range(int(sys.argv[1]) if len(sys.argv) > 1 else 3000):
    texts.append(lexatoms.soup(Choices(expand(b'c%d' % i, 120)), max_atoms=6)[0])
for src in texts:
    try:
        r = c07.check_text(src, avoid=avoid)
        n += r is not None
    except runner.Violation as v:
        key = v.clause + ' | ' + v.msg.split(':', 1)[1][:60] if v.clause in ('kind','extent','count','raises') and False else v.clause
        buckets[key].append((len(src), src, v.msg))
print('valid', n, 'of', len(texts))
for k, lst in sorted(buckets.items(), key=lambda kv: -len(kv[1])):
    lst.sort(key=lambda x: x[0])
    print('==', k, len(lst))
    seen = set()
    for ln, src, msg in lst[:400]:
        sig = msg[msg.find(':'):][:70]
        if sig in seen: continue
        seen.add(sig)
        if len(seen) > 12: break
        print('   ', src, '::', msg[:170])
