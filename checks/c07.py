"""C07 - lexer agrees with the PICO-8/Lua lexical grammar on kinds, extents, values."""
import io
import os
import tempfile

from hypothesis import strategies as st

from vlib.runner import Violation, show
from vlib.choices import Choices
from vlib import reflex, lexatoms, reffmt

PROPERTY = 'C07'
LEVEL = 'exploration'
RULE = ('sources = token soups (not necessarily parseable): sequences of atoms from every token class (names with '
        'keyword substrings and glyph bytes, all keywords, every numeral form and letter case, quoted strings with '
        'every escape form, long strings/comments of several levels, labels, every operator of the dialect) joined '
        'by separators {nothing, blanks, tabs, LF, CRLF, blank lines}; plus the complete ordered-pair table of '
        'representative atoms (each pair with and without a separating space; exhaustive over the table). A text '
        'the reference lexer REFLEX rejects is out of domain and skipped (counted). Oracle: picotool\'s token list '
        '== REFLEX\'s in kind, spelling (strings: decoded bytes and quote kind), numeric value, line and column; '
        'single chunk == per-line chunks. Non-trivial = the text has two adjacent significant tokens with no '
        'separator, or a numeral/string/comment of a non-basic form; distinct by text.'
        " A numeral directly followed by a letter is lexed as Lua 5.2's read_numeral does (1then = number, keyword)."
        ' Numeral atoms include binary, hexadecimal and decimal fractions of 17-21 digits.')
ASSUMPTIONS = ['PICO-8/Lua lexical rules are represented by vlib/reflex.py (written from the Lua 5.2 manual + PICO-8 '
               'extension list; no Lua or PICO-8 binary exists in the sandbox to cross-check it)',
               'numeral forms are those the property lists; hex floats with p-exponents and "0x1f." are out of domain',
               'line numbers are asserted for LF and CRLF line ends; bare-CR sources are not generated',
               'no claim about PICO-8\'s own token counting']
LEVEL_TEXT = ('Exploration: differential testing of the lexer against an independent reference lexer on generated '
              'token soups and on the full ordered-pair adjacency table, single-chunk and per-line chunking.')
LEVEL_NOTE = 'Trusted: vlib/reflex.py (self-tested at import against hand-derived lexemes).'
TECHNIQUE = 'differential testing against a reference lexer: Hypothesis token soups + exhaustive ordered-pair table'

KIND = {'TokSpace': 'space', 'TokNewline': 'newline', 'TokComment': 'comment', 'TokString': 'string',
        'TokNumber': 'number', 'TokName': 'name', 'TokLabel': 'label', 'TokKeyword': 'keyword',
        'TokSymbol': 'symbol'}


def pt_lex(chunks):
    from pico8.lua import lexer
    bad = lexer.Lexer(version=8)
    try:
        bad.process_lines([(b'x = "unterminated\\', b'@@ `', b'y = [[ open\n')[len(chunks) % 3]])     # a failing lex first
    except Exception:
        pass
    lx = lexer.Lexer(version=8)
    lx.process_lines(chunks)
    return lx.tokens


def split_lines(src):
    out = []
    i = 0
    while i < len(src):
        j = src.find(b'\n', i)
        if j < 0:
            out.append(src[i:])
            break
        out.append(src[i:j + 1])
        i = j + 1
    return out


def compare(src, ref, toks, case, how):
    """ref: REFLEX tokens; toks: picotool tokens."""
    n = min(len(ref), len(toks))
    for k in range(n):
        r, t = ref[k], toks[k]
        kind = KIND.get(type(t).__name__, type(t).__name__)
        where = 'token %d (%s chunking) of %s' % (k, how, show(src, 80))
        if kind != r.kind:
            raise Violation('%s: picotool says %s %s, grammar says %s %s'
                            % (where, kind, show(t._data, 30), r.kind, show(r.text, 30)), case, 'kind')
        if r.kind == 'string':
            if bytes(t._data) != r.value and not (r.quote.startswith(b'[') and bytes(t._data) == _raw_long(r)):
                raise Violation('%s: string literal %s decodes to %s, grammar says %s'
                                % (where, show(r.text, 40), show(t._data, 40), show(r.value, 40)), case, 'string-value')
            if r.quote.startswith(b'['):
                if t._multiline_quote is None or b'[' + t._multiline_quote + b'[' != r.quote:
                    raise Violation('%s: long string level differs' % where, case, 'string-quote')
                if bytes(t.value) != r.value:
                    raise Violation('%s: long string %s has value %s, grammar says %s (first line break is not '
                                    'part of the value)' % (where, show(r.text, 40), show(t.value, 40),
                                                            show(r.value, 40)), case, 'longstring-value')
            elif t._quote != r.quote:
                raise Violation('%s: quote kind differs' % where, case, 'string-quote')
        else:
            if bytes(t._data) != r.text:
                raise Violation('%s: picotool token text %s, grammar says %s'
                                % (where, show(t._data, 40), show(r.text, 40)), case, 'extent')
        if r.kind == 'number':
            try:
                v = t.value
            except Exception as e:
                raise Violation('%s: TokNumber.value raised %r for %s' % (where, e, show(r.text)), case, 'number-value')
            try:
                want = float(r.value)
            except OverflowError:
                want = float('inf')
            # tolerance: picotool converts integer and fraction parts separately in double precision (its docstring
            # says values need not match PICO-8's 16.16 fixed point exactly); 2^-40 relative is far below one
            # fixed-point unit and far above accumulated rounding
            if v != want and not (abs(v - want) <= 2.0 ** -40 * max(1.0, abs(want))):
                raise Violation('%s: numeral %s has value %r, grammar says %r'
                                % (where, show(r.text), v, want), case, 'number-value')
        if (t._lineno, t._charno) != (r.line, r.col):
            raise Violation('%s: position line %r col %r, grammar says line %d col %d'
                            % (where, t._lineno, t._charno, r.line, r.col), case, 'position')
    if len(ref) != len(toks):
        raise Violation('%s chunking of %s: picotool has %d tokens, grammar says %d (first extra: %s)'
                        % (how, show(src, 80), len(toks), len(ref),
                           show((toks[n]._data if len(toks) > n else ref[n].text), 30)), case, 'count')


def _raw_long(r):
    lvl = len(r.quote) - 2
    return r.text[2 + lvl:len(r.text) - 2 - lvl]


KNOWN_TAGS = ('long_comment_level', 'spaced_label')


def out_of_domain(src, ref, avoid=()):
    """Reason why a REFLEX-valid text is outside the asserted domain, or None.  `avoid`: tags of open known findings
    (the shapes they cover are left out, and counted, while the finding is open)."""
    if b'\r' in src.replace(b'\r\n', b''):
        return 'bare_cr'     # not in the property's line-end domain
    if 'long_comment_level' in avoid:
        for t in ref:
            if t.kind == 'comment' and t.value:
                # levelled long comments --[=[ ]=] (known finding C07 levelled-long-comment)
                return 'long_comment_level'
    if 'esc_z' in avoid and b'\\z' in src:
        return 'esc_z'
    if 'spaced_label' in avoid:
        for t in ref:
            if t.kind == 'label' and t.text != b'::' + t.value + b'::':
                return 'spaced_label'    # ':: name ::' (known finding C07 spaced-label)
    return None


def check_text(src, case=None, avoid=(), stats=None):
    """Returns None if out of domain, else the REFLEX tokens."""
    case = case or {'text': bytes(src)}
    try:
        ref = reflex.lex(src)
    except reflex.Malformed:
        if stats is not None:
            stats.exclude('not_lexable_by_reference')
        return None
    why = out_of_domain(src, ref, avoid)
    if why:
        if stats is not None:
            stats.exclude(why)
        return None
    for how, chunks in (('single', [src]), ('per-line', split_lines(src))):
        try:
            toks = pt_lex(chunks)
        except Exception as e:
            raise Violation('lexer raised %r on (%s chunking) %s' % (e, how, show(src, 100)), case, 'raises')
        compare(src, ref, toks, case, how)
    return ref


def classify(src, ref):
    labs = []
    sig_adjacent = False
    for a, b in zip(ref, ref[1:]):
        if a.kind in reflex.SIGNIFICANT and b.kind in reflex.SIGNIFICANT:
            sig_adjacent = True
            break
    if sig_adjacent:
        labs.append('adjacent_no_separator')
    for t in ref:
        if t.kind == 'number' and (t.text[:2].lower() in (b'0x', b'0b') or b'.' in t.text or b'e' in t.text.lower()):
            labs.append('numeral_nonbasic')
            break
    for t in ref:
        if t.kind == 'string' and (b'\\' in t.text or t.quote.startswith(b'[')):
            labs.append('string_nonbasic')
            break
    for t in ref:
        if t.kind == 'comment' and (t.text.startswith(b'//') or t.value is not None):
            labs.append('comment_nonbasic')
            break
    if any(t.kind == 'name' and any(c >= 0x80 for c in t.text) for t in ref):
        labs.append('glyph_name')
    if b'\r\n' in src:
        labs.append('crlf')
    return labs


def part_soup(ctx):
    def body(seed):
        src, _classes = lexatoms.soup(Choices(seed))
        ref = check_text(src, avoid=ctx.open_findings, stats=ctx.stats)
        if ref is None:
            return
        labs = classify(src, ref)
        ctx.stats.case(src, bool(labs), {'text': show(src, 100), 'labels': labs}, labs)
    ctx.hyp('soup', st.binary(min_size=120, max_size=120), body, max_examples=2500 if ctx.quick else 30000)


def part_strings(ctx):
    def body(seed):
        src = lexatoms.string_soup(Choices(seed), allow_z='esc_z' not in ctx.open_findings)
        ref = check_text(src, avoid=ctx.open_findings, stats=ctx.stats)
        if ref is None:
            return
        labs = classify(src, ref) + ['string_soup']
        if any(t.kind == 'string' and b'\n' in t.text for t in ref):
            labs.append('multiline_string')
        ctx.stats.case(src, True, {'text': show(src, 100), 'labels': labs}, labs)
    ctx.hyp('strings', st.binary(min_size=160, max_size=160), body, max_examples=2500 if ctx.quick else 30000)


def part_chars(ctx):
    def body(seed):
        src = lexatoms.char_soup(Choices(seed))
        ref = check_text(src, avoid=ctx.open_findings, stats=ctx.stats)
        if ref is None:
            return
        labs = classify(src, ref) + ['char_soup']
        ctx.stats.case(src, len(labs) > 1, {'text': show(src, 100), 'labels': labs}, labs)
    ctx.hyp('chars', st.binary(min_size=90, max_size=90), body, max_examples=3000 if ctx.quick else 40000)


def pair_texts():
    reps = lexatoms.representatives()
    for a, ca in reps:
        for b, cb in reps:
            yield a + b, ca, cb, 'glued'
            yield a + b' ' + b, ca, cb, 'spaced'


def part_pairs(ctx):
    n = 0
    pairs_seen = set()
    for k, (src, ca, cb, how) in enumerate(pair_texts()):
        if k % ctx.nshards != ctx.shard:
            continue
        for text in (src, b'x=' + src + b'\n'):
            ref = check_text(text, avoid=ctx.open_findings, stats=ctx.stats)
            if ref is None:
                continue
            n += 1
            pairs_seen.add((ca, cb, how))
            if how == 'glued':
                ctx.stats.nontrivial.add(text)
    ctx.stats.evaluations += n
    ctx.stats.count('pair_texts', n)
    ctx.stats.extra['pair_classes_covered'] = pairs_seen
    ctx.stats.extra['exhaustive'] = True
    ctx.stats.samples.append({'pair_table': 'all ordered pairs of %d representative atoms, glued and spaced'
                              % len(lexatoms.representatives())})


def cli_listtokens(src, case):
    """`p8tool listtokens` prints exactly as many numbered entries as there are significant tokens."""
    from pico8 import tool, util
    ref = reflex.try_lex(src)
    if ref is None:
        return None
    from pico8.lua import lua as plua
    try:
        plua.Lua.from_lines([src], version=8)
    except Exception:
        return None   # not parseable: cannot be put in a cart (from_file parses); not this clause's domain
    with tempfile.TemporaryDirectory(prefix='c07_') as td:
        path = os.path.join(td, 'c.p8')
        with open(path, 'wb') as fh:
            fh.write(reffmt.write_p8(8, src, bytes(0x4300)))
        buf = io.StringIO()
        old = util._write_stream, util._verbosity
        util._write_stream = buf
        util._verbosity = util.VERBOSITY_NORMAL
        try:
            try:
                rc = tool.main(['listtokens', path])
            except Exception as e:
                raise Violation('`p8tool listtokens` raised %r on %s' % (e, show(src, 80)), case, 'cli')
        finally:
            util._write_stream, util._verbosity = old
    out = buf.getvalue()
    if rc != 0:
        raise Violation('`p8tool listtokens` returned %r' % rc, case, 'cli')
    # the code in the file gets a final newline; count numbered entries "<N:"
    import re
    nums = [int(m) for m in re.findall(r'<(\d+):', out)]
    src2 = src if src.endswith(b'\n') else src + b'\n'
    want = len(reflex.significant(reflex.lex(src2)))
    # entries inside string values could fake "<N:"; only count a clean 0..k-1 run
    if nums[:want] != list(range(want)) or (len(nums) > want and nums[want] == want):
        raise Violation('`p8tool listtokens` numbers %d tokens for %s, grammar says %d'
                        % (len(nums), show(src, 80), want), case, 'cli-count')
    return want


def part_cli(ctx):
    from vlib import cartgen

    def body(seed):
        src, _ = cartgen.filler_code(Choices(seed), max_lines=8)
        src = src.replace(b'\x00', b'\x01')
        if b'<' in src or b'#include' in src:
            return
        n = cli_listtokens(src, {'cli_text': src})
        if n is not None:
            ctx.stats.case(b'cli' + src, n >= 3, {'cli_text': show(src, 80), 'tokens': n}, ['cli_listtokens'])
    ctx.hyp('cli', st.binary(min_size=100, max_size=100), body, max_examples=40 if ctx.quick else 400)


def part_fuzz(ctx):
    """Coverage-guided bytes -> REFLEX-valid filter -> the same differential oracle (thorough tier; needs atheris)."""
    corpus = [b'x=1', b'a..b', b'"s\\65"', b'--[[c]]x', b'0x1f.8', b'if (a) b=1\n', b'::l::', b'[=[x]=]',
              b"'\\x41'", b'a>>>b', b'1e+5', b'x\r\ny', b'\x8e=1']
    ctx.fuzz('c07', runs=120000, max_len=96, corpus=corpus)


def parts(tier):
    if tier == 'quick':
        return [('soup', part_soup, 4), ('strings', part_strings, 3), ('chars', part_chars, 3), ('pairs', part_pairs, 5), ('cli', part_cli, 1)]
    return [('soup', part_soup, 4), ('strings', part_strings, 3), ('chars', part_chars, 2), ('pairs', part_pairs, 3), ('cli', part_cli, 1),
            ('fuzz', part_fuzz, 3)]


def replay(case):
    if 'cli_text' in case:
        cli_listtokens(case['cli_text'], case)
    else:
        check_text(case['text'], case)


def vacuity(total, tier):
    msgs = []
    for lab in ('adjacent_no_separator', 'numeral_nonbasic', 'string_nonbasic', 'comment_nonbasic', 'glyph_name',
                'crlf', 'cli_listtokens', 'char_soup', 'string_soup', 'multiline_string'):
        if total.classes.get(lab, 0) < 5:
            msgs.append('class %s seen %d times' % (lab, total.classes.get(lab, 0)))
    if total.classes.get('pair_texts', 0) < 5000:
        msgs.append('pair table too small: %d' % total.classes.get('pair_texts', 0))
    return msgs
