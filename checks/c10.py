"""C10 - luafmt output is canonical: indentation follows nesting, idempotent."""
from hypothesis import strategies as st

from vlib.runner import Violation, show
from vlib.choices import Choices
from vlib import reflex, luagen

PROPERTY = 'C10'
LEVEL = 'exploration'
RULE = ('programs = LUAGEN model trees laid out one statement per line (blocks broken at their keywords, tables / '
        'argument lists / function bodies optionally broken at brackets and commas) with random leading blanks and '
        'tabs, trailing blanks, blank-line runs (also whitespace-only lines), own-line and end-of-line comments of the '
        'three kinds, LF/CRLF, x indent widths 0-8. Metamorphic input change: re-indent (replace the leading and '
        'trailing blanks of every line that does not start inside a long string or long comment). Oracles: (a) '
        'fmt(reindent(p)) == fmt(p); (b) fmt(fmt(p)) == fmt(p); (c) every output line whose first token is a code '
        'token is indented by exactly width x depth(token), depth = blocks + brackets open at that token in the model '
        '(closing tokens already closed, short-if opens no block); (d) no output line outside long strings/comments '
        'ends in a blank, no two consecutive blank lines, no blank or whitespace-only line at the end. Non-trivial = '
        'nesting depth >= 2 and at least one blank-line run or comment line; distinct by (source, width).'
        " Layouts include runs of 9-14 comment lines and multi-line block comments on their own lines (with the layout's LF or CRLF line ends); only lines inside multi-line STRING literals are exempt from the no-trailing-whitespace clause; sources without multi-line strings are also formatted with the other line-end style (LF <-> CRLF) and must give the same output."
        ' Part "deep": 17-70 nested blocks of every kind with table/call brackets at the bottom, indent widths 1-8 (indentation up to 560 columns).'
        ' (e) for a quarter of the programs and all fixed shapes, `p8tool luafmt --indentwidth N` on a .p8 cart must write the code the library writer gives for width N (N = 0..8; the option is omitted for N = 2).')
ASSUMPTIONS = ['the indentation of comment-only lines is not asserted by (c) (the property constrains lines beginning '
               'with a code token); the inner spacing of a line is never changed by the re-indent transform',
               'lexical rules are represented by vlib/reflex.py']
LEVEL_TEXT = ('Exploration: grammar-based programs with a line-structured layout; metamorphic (re-indent invariance), '
              'idempotence, model-depth indentation and whitespace-hygiene oracles.')
LEVEL_NOTE = 'Trusted: vlib/luagen.py depth annotation, vlib/reflex.py.'
TECHNIQUE = 'metamorphic + idempotence + model-based indentation oracles over Hypothesis-generated line layouts'


def fmt(src, width):
    from vlib import prelude
    prelude.lua()
    from pico8.lua import lua as plua
    l = plua.Lua.from_lines([src], version=8)
    return b''.join(l.to_lines(writer_cls=plua.LuaFormatterWriter, writer_args={'indentwidth': width}))


def protected_offsets(src):
    """Offsets inside multi-line tokens (long strings/comments, strings with escaped line breaks):
    lines starting there must not be re-indented."""
    out = set()
    for t in reflex.lex(src):
        if t.kind in ('string', 'comment') and b'\n' in t.text:
            out.update(range(t.start + 1, t.end))
    return out


def reindent(src, ch):
    """Change leading/trailing blanks of lines that do not start inside a multi-line token."""
    prot = protected_offsets(src)
    lines = src.split(b'\n')
    off = 0
    out = []
    for i, ln in enumerate(lines):
        start = off
        off += len(ln) + 1
        cr = b''
        body = ln
        if body.endswith(b'\r'):
            body, cr = body[:-1], b'\r'
        end_inside = (start + len(body)) in prot   # line ends inside a multi-line token: keep its tail
        if start in prot:
            lead = None
        else:
            lead = ch.pick([b'', b' ', b'  ', b'\t', b'    ', b'   \t', b'        '])
        stripped = body
        if lead is not None:
            stripped = stripped.lstrip(b' \t')
        if not end_inside:
            stripped = stripped.rstrip(b' \t')
            trail = ch.pick([b'', b'', b' ', b'\t', b'   '])
        else:
            trail = b''
        if lead is None:
            out.append(stripped + trail + cr)
        elif stripped == b'' and not end_inside:
            out.append(ch.pick([b'', b'', b'  ', b'\t']) + cr)
        else:
            out.append(lead + stripped + trail + cr)
    return b'\n'.join(out)


def check_cli(src, width, out, case):
    """(e) the command line applies the same width: `p8tool luafmt --indentwidth N cart.p8` writes the code the library
    writer produces for that width (up to the final line end the .p8 format supplies)."""
    from checks import c09
    got, err, _untouched = c09.cli_luafmt(src, width, False, case)
    if got is None:
        raise Violation('`p8tool luafmt --indentwidth %d` failed (%r) on a valid program -- %s' % (width, err, show(src, 200)),
                        case, 'cli-fails')
    if got.rstrip(b'\n') != out.rstrip(b'\n'):
        i = next((i for i in range(min(len(out), len(got))) if out[i] != got[i]), min(len(out), len(got)))
        raise Violation('`p8tool luafmt --indentwidth %d` writes other code than the formatter gives for width %d: at byte '
                        '%d %s (command line) vs %s (library) -- input %s'
                        % (width, width, i, show(got[max(0, i - 30):i + 30], 80), show(out[max(0, i - 30):i + 30], 80),
                           show(src, 160)), case, 'cli-width')


def check(src, width, kept, case, src2=None):
    try:
        out = fmt(src, width)
    except Exception as e:
        raise Violation('luafmt raised %r on a valid program -- %s' % (e, show(src, 200)), case, 'raises')
    if case.get('cli') and b'\r' not in src:
        check_cli(src, width, out, case)
    # (b) idempotence
    try:
        out2 = fmt(out, width)
    except Exception as e:
        raise Violation('luafmt raised %r on its own output -- %s' % (e, show(out, 200)), case, 'raises-2nd')
    if out2 != out:
        i = next((i for i in range(min(len(out), len(out2))) if out[i] != out2[i]), min(len(out), len(out2)))
        raise Violation('formatting already formatted code changes it (indent %d) at byte %d: %s -> %s -- input %s'
                        % (width, i, show(out[max(0, i - 30):i + 30], 80), show(out2[max(0, i - 30):i + 30], 80),
                           show(src, 160)), case, 'idempotent')
    # (a) re-indent invariance
    if src2 is not None:
        try:
            out_r = fmt(src2, width)
        except Exception as e:
            raise Violation('luafmt raised %r on the re-indented program -- %s' % (e, show(src2, 200)), case, 'raises')
        if out_r != out:
            i = next((i for i in range(min(len(out), len(out_r))) if out[i] != out_r[i]), min(len(out), len(out_r)))
            raise Violation('output depends on the input\'s indentation (indent %d): at byte %d %s vs %s -- input %s -- '
                            're-indented %s' % (width, i, show(out[max(0, i - 30):i + 30], 80),
                                                show(out_r[max(0, i - 30):i + 30], 80), show(src, 140),
                                                show(src2, 140)), case, 'reindent')
    # (a2) the same program and line breaks with the other line-end style (LF <-> CR LF); sources with a line break
    # inside a string literal are left out (there the line end is part of the program)
    try:
        multi_str = any(t.kind == 'string' and (b'\n' in t.text or b'\r' in t.text) for t in reflex.lex(src))
    except reflex.Malformed:
        multi_str = True
    if not multi_str and b'\r' not in src.replace(b'\r\n', b''):
        src3 = src.replace(b'\r\n', b'\n') if b'\r\n' in src else src.replace(b'\n', b'\r\n')
        try:
            out3 = fmt(src3, width)
        except Exception as e:
            raise Violation('luafmt raised %r on the program with %s line ends -- %s'
                            % (e, 'LF' if b'\r\n' in src else 'CR LF', show(src3, 200)), case, 'raises')
        if out3 != out:
            i = next((i for i in range(min(len(out), len(out3))) if out[i] != out3[i]), min(len(out), len(out3)))
            raise Violation('output depends on the line-end style of the input (indent %d): at byte %d %s vs %s -- input %s'
                            % (width, i, show(out[max(0, i - 30):i + 30], 80), show(out3[max(0, i - 30):i + 30], 80),
                               show(src, 160)), case, 'line-end-style')
    # (c) indentation == width x depth, (d) hygiene
    try:
        ref = reflex.lex(out)
    except reflex.Malformed as e:
        raise Violation('luafmt output does not lex: %s -- %s' % (e, show(out, 160)), case, 'relex')
    # offsets inside multi-line string literals: their lines are program text, not layout.  Lines inside a
    # multi-line comment are layout like any other line (the formatter re-writes comments up to whitespace).
    prot = set()
    for t in ref:
        if t.kind == 'string' and b'\n' in t.text:
            prot.update(range(t.start, t.end))
    sig = reflex.significant(ref)
    if kept is not None and len(sig) == len(kept):
        ordinal = {id(t): k for k, t in enumerate(sig)}
        line_start = True
        indent = 0
        for t in ref:
            if t.kind == 'newline':
                line_start = True
                indent = 0
                continue
            if line_start and t.kind == 'space':
                if t.start > 0 and out[t.start - 1:t.start] == b'\n' or t.start == 0:
                    indent = len(t.text) if set(t.text) <= {0x20} else -1
                continue
            if line_start and t.kind in reflex.SIGNIFICANT:
                k = ordinal[id(t)]
                want = width * kept[k].depth
                if indent != want:
                    raise Violation('line starting with %s (token %d, %d blocks/brackets open) is indented by %s, expected '
                                    '%d x %d = %d -- output %s -- input %s'
                                    % (show(t.text, 20), k, kept[k].depth, indent if indent >= 0 else 'tabs',
                                       width, kept[k].depth, want, show(out, 200), show(src, 160)), case, 'indent')
            line_start = False
    pos = 0
    lines = out.split(b'\n')
    blank_run = 0
    seen_text = False       # blank lines before the first line do not "separate lines": not asserted
    for i, ln in enumerate(lines):
        end = pos + len(ln)
        inside = end in prot or (end - 1) in prot and ln[-1:] in (b' ', b'\t') and end in prot
        if ln[-1:] in (b' ', b'\t', b'\r') and end not in prot and i < len(lines):
            if not (i == len(lines) - 1 and ln == b''):
                raise Violation('output line %d ends in whitespace: %s -- input %s' % (i + 1, show(ln, 80), show(src, 160)),
                                case, 'trailing-space')
        if ln.strip(b' \t\r') == b'' and pos not in prot and i < len(lines) - 1:
            blank_run += 1
            if blank_run >= 2 and seen_text:
                raise Violation('two consecutive blank lines in the output (lines %d-%d) -- output %s -- input %s'
                                % (i, i + 1, show(out, 160), show(src, 160)), case, 'blank-lines')
        else:
            blank_run = 0
            seen_text = True
        pos = end + 1
    if out.endswith(b'\n\n') or (lines and lines[-1].strip(b' \t') == b'' and lines[-1] != b''):
        raise Violation('output ends with a blank or whitespace-only line: %s' % show(out[-40:], 60), case, 'blank-at-end')
    return out


def build(seed, avoid=()):
    ch = Choices(seed)
    cfg = luagen.Cfg(max_depth=2 + ch.below(3), max_stmts=1 + ch.below(6), budget=40 + ch.below(110), avoid=avoid)
    model, tags = luagen.gen_program(ch, cfg)
    toks, stmts = luagen.render(model, ch)
    lay = luagen.layout(toks, ch, 'lines')
    width = ch.below(9)
    return lay, stmts, width, ch


def part_lines(ctx):
    def body(seed):
        lay, stmts, width, ch = build(seed, ctx.open_findings)
        if luagen.verify(lay) is None:
            ctx.stats.exclude('generator_selfcheck_failed')
            return
        src = lay.src
        src2 = reindent(src, ch)
        ref2 = reflex.try_lex(src2)
        if ref2 is None or [t.text for t in reflex.significant(ref2)] != [t.text for t in lay.kept]:
            ctx.stats.exclude('reindent_changed_tokens')
            src2 = None
        case = {'source': src, 'width': width, 'source2': src2, 'seed': bytes(seed), 'cli': seed[-2] % 4 == 0}
        check(src, width, lay.kept, case, src2)
        depth = max([t.depth for t in lay.kept] + [0])
        labs = ['width_%d' % width]
        if case['cli'] and b'\r' not in src:
            labs.append('cli_width_%d' % width)
        has_blank = b'\n\n' in src.replace(b'\r', b'').replace(b' ', b'').replace(b'\t', b'')
        if has_blank:
            labs.append('blank_line_run')
        if lay.comments:
            labs.append('comments')
        if any(c[1].startswith(b'//') for c in lay.comments):
            labs.append('slash_comment')
        if any(b'\n' in c[1] for c in lay.comments):
            labs.append('multi_line_comment')
            if b'\r\n' in src:
                labs.append('multi_line_comment_crlf')
        if len(lay.comments) >= 9:
            labs.append('comments>=9')
        if depth >= 2:
            labs.append('depth>=2')
        if any(t.scope for t in lay.kept):
            labs.append('short_if_or_print')
        ctx.stats.case(src + bytes((width,)), depth >= 2 and (has_blank or bool(lay.comments)),
                       {'source': show(src, 160), 'width': width, 'labels': labs}, labs)
    ctx.hyp('lines', st.binary(min_size=700, max_size=700), body, max_examples=350 if ctx.quick else 6000)


def deep_model(depth, ch):
    """A program nested `depth` levels deep (blocks of every kind, and table / call brackets at the bottom)."""
    name = lambda n: ('exp', [('chain', ('name', n), [])])
    num = lambda k: ('exp', [('number', b'%d' % k)])
    inner = [('assign', [('chain', ('name', b'x'), [])], b'=', [num(depth)]),
             ('assign', [('chain', ('name', b't'), [])], b'=',
              [('exp', [('table', [('pos', num(1)), ('pos', ('exp', [('table', [('pos', num(2)), ('named', b'k', num(3))])]))])])]),
             ('call', ('chain', ('name', b'f'), [('call', ('args', [name(b'a'), ('exp', [('chain', ('name', b'g'), [('call', ('args', [num(4), num(5)]))])])]))]))]
    block = inner
    for d in range(depth, 0, -1):
        k = (d + ch.below(6)) % 6
        extra = [('assign', [('chain', ('name', b'v%d' % d), [])], b'=', [num(d)])]
        if k == 0:
            st_ = ('do', block)
        elif k == 1:
            st_ = ('while', name(b'a'), block)
        elif k == 2:
            st_ = ('if', [(name(b'b'), block)], extra if d % 2 else None)
        elif k == 3:
            st_ = ('function', [b'fn%d' % d], None, ([b'p'], False, block))
        elif k == 4:
            st_ = ('repeat', block, name(b'c'))
        else:
            st_ = ('fornum', b'i', num(1), num(3), None, block)
        block = extra + [st_] if d % 3 else [st_] + extra
    return block


def part_deep(ctx):
    """Nesting far beyond what programs usually have (indentwidth x depth reaches several hundred columns)."""
    def body(v):
        seed, depth, width = v
        ch = Choices(seed)
        model = deep_model(depth, ch)
        toks, stmts = luagen.render(model, ch)
        lay = luagen.layout(toks, ch, 'lines')
        if luagen.verify(lay) is None:
            ctx.stats.exclude('generator_selfcheck_failed')
            return
        src2 = reindent(lay.src, ch)
        case = {'source': lay.src, 'width': width, 'source2': src2, 'deep': depth, 'seed': bytes(seed)}
        check(lay.src, width, lay.kept, case, src2)
        ctx.stats.case(lay.src + bytes((width,)), True, {'deep_nesting': depth, 'width': width,
                                                         'columns': width * max(t.depth for t in lay.kept)},
                       ['deep_nesting', 'width_%d' % width] + (['indent>128_columns'] if width * depth > 128 else []))
    ctx.hyp('deep', st.tuples(st.binary(min_size=400, max_size=400), st.integers(17, 70), st.sampled_from([1, 2, 3, 4, 6, 7, 8, 8])),
            body, max_examples=12 if ctx.quick else 80)


FIXED = [
    b'function f()\n\n\n  x=1\n\n  y=2\nend\n',
    b'if a then\n  -- c\n  x=1\n\n  // d\n  y=2\nelse\n  z=3\nend\n',
    b'x={\n  1,\n  2,\n  {\n    3\n  }\n}\n',
    b'f(\n  a,\n  function()\n    return 1\n  end\n)\n',
    b'repeat\n  x+=1\nuntil x>3\n',
    b'for i=1,2 do\n  if (i) x=1\n  y=2\nend\n',
    b'x=1\n\n\n\ny=2\n\n',
    b'do\n\n  -- only comment\n\nend\n',
    b'while a do\n\t\tx=1   \n \n\t\ty=2\t\nend',
    b'x = a +\n    b\n',
    b't[\n  1\n] = 2\n',
    b'local function f(a,\n                 b)\n  return a\nend\n',
]


def part_fixed(ctx):
    for src in FIXED:
        for width in (0, 1, 2, 4, 8):
            case = {'source': src, 'width': width, 'source2': None, 'cli': True}
            ch = Choices(src[:16] + bytes((width,)))
            src2 = reindent(src, ch)
            check(src, width, None, dict(case, source2=src2), src2)
            ctx.stats.case(src + bytes((width,)), True, {'fixed': show(src, 80), 'width': width}, ['fixed_shape'])


def parts(tier):
    if tier == 'quick':
        return [('lines', part_lines, 8), ('fixed', part_fixed, 1), ('deep', part_deep, 2)]
    return [('lines', part_lines, 13), ('fixed', part_fixed, 1), ('deep', part_deep, 2)]


def replay(case):
    kept = None
    if 'deep' in case:
        ch = Choices(case['seed'])
        toks, _stmts = luagen.render(deep_model(case['deep'], ch), ch)
        lay = luagen.layout(toks, ch, 'lines')
        if lay.src == case['source']:
            kept = lay.kept
    elif 'seed' in case:
        lay, stmts, width, ch = build(case['seed'])
        if lay.src == case['source']:
            kept = lay.kept
    check(case['source'], case['width'], kept, case, case.get('source2'))


def vacuity(total, tier):
    msgs = []
    for lab in ('blank_line_run', 'comments', 'slash_comment', 'multi_line_comment', 'comments>=9', 'depth>=2', 'short_if_or_print', 'width_0', 'width_8', 'cli_width_0', 'cli_width_2', 'cli_width_8',
                'fixed_shape', 'indent>128_columns'):
        if total.classes.get(lab, 0) < 5:
            msgs.append('class %s seen %d times' % (lab, total.classes.get(lab, 0)))
    return msgs
