"""C11 - a failed cart write never damages (or creates) the file at the destination."""
import os
import tempfile

from hypothesis import strategies as st

from vlib.runner import Violation, HarnessError, Ctx, show
from vlib.choices import Choices, expand
from vlib import cartgen, reffmt, faults

PROPERTY = 'C11'
LEVEL = 'fault_enumeration'
RULE = ('scenario = (entry point, format {.p8,.p8.png}, destination {absent, existing valid cart written by the '
        'reference writers, existing garbage bytes}, Lua writer {default, LuaMinifyTokenWriter, LuaFormatterWriter}) x '
        'a CARTGEN cart (region memory from a mode mixture, filler Lua with all byte values, label present/absent; '
        'the cart salt is a Hypothesis draw). Entry points: file.to_file (all 15 format x destination x writer '
        'combinations in which a write can start, + .p8.png over 8 kinds of unreadable label file x 3 writers), and '
        'pico8.tool.main for `luafmt --overwrite x.p8` (destination = the input), `luamin` (.p8/.p8.png, existing '
        'x_fmt), `writep8`, `build OUT --lua src.lua` and `build OUT --gfx other` over an existing OUT (.p8 and '
        '.p8.png; --lua also with OUT absent). Per scenario a fault-free dry run counts the N write calls the format encoder makes on its output '
        'stream (temporary file, any file pico8.* opens for writing, the stream given to the encoder); then a fault '
        '(short write + OSError) is injected at EVERY k in [0,N) - this write-index dimension is enumerated '
        'completely for each sampled cart (exhaustive: true refers to it; the shards\' counts are cross-checked '
        'against N) - plus every internal failure source: Lua writer raising after i lines in the sanity pass and '
        'in the real pass, writer emitting text that does not lex/parse (.p8), each section\'s to_lines (.p8) / '
        'to_bytes (.p8.png) raising, compress_code raising, png.Writer.write raising after emitting part of the '
        'PNG, label file unreadable, and two failures picotool has by itself (`build --lua-format`). The copy of '
        'the finished temporary file into the destination is never faulted. Non-trivial = the fault fired and the '
        'destination existed beforehand; distinct by (scenario, cart salt, fault kind and parameters).'
        " Further scenarios: two carts in one CLI invocation (luamin / writep8 / luafmt a x: the first output is new, the second exists; the earlier cart's output must be absent or complete after a failure) and library writes of a .p8.png with label_fname naming another file."
        ' Faults also come as Ctrl-C (an injected KeyboardInterrupt subclass, i.e. not an Exception) in the Lua writer and at the first, a middle and the last encoder write.'
        ' Odd shards run after `p8tool --debug stats x.p8` and every fourth after `-q` in the same process (verbosity is process-global); "deep" scenarios write code that is too deeply nested for the AST formatter (it fails by itself with RecursionError) with further faults injected on top.'
        ' Natural-failure scenarios (the command fails by itself; further faults are injected on top): code too deep for the formatter, `build` over a destination that is not a loadable cart, no usable directory for temporary files.'
        ' "tmp_here" scenarios make the cart\'s own directory the directory for temporary files (TMPDIR=.).')
ASSUMPTIONS = ['"producing the cart" = the run of P8Formatter.to_file / P8PNGFormatter.to_file; an I/O error while the '
               'finished bytes are copied into the destination is outside the property and not injected',
               'a call that returns success although the injected fault fired is a violation only if the destination '
               'then holds neither its previous bytes nor the bytes the same call produces without a fault',
               'the destination directory is private to the call (no concurrent writers)',
               'a writer emitting unparseable text is a failure source for .p8 only (the .p8.png encoder has no '
               're-parse; excluded by construction there)']
LEVEL_TEXT = ('Fault enumeration: for each sampled cart and configuration every write call of the encoder is failed '
              'once, and every internal failure source is triggered; destination bytes and directory listing are '
              'compared before/after.')
LEVEL_NOTE = ('Trusted: vlib/faults.py (in-process monkeypatching, checked clean after every batch), vlib/reffmt.py '
              'writers for the pre-existing destination carts. Carts are sampled (quick: one per scenario).')
TECHNIQUE = 'Exhaustive fault-index enumeration over Hypothesis-salted generated carts; before/after file-state oracle'

FORMATS = ('p8', 'png')
EXT = {'p8': '.p8', 'png': '.p8.png'}
WRITERS = ('default', 'minify', 'formatter')
BIG = 10 ** 6
N_GARBAGE = 8

# (path, fmt, dest, writer) of the CLI scenarios
CLI_SCENARIOS = (
    ('luafmt_overwrite', 'p8', 'valid', 'formatter'),
    ('luamin', 'p8', 'valid', 'minify'),
    ('luamin', 'p8', 'garbage', 'minify'),
    ('luamin', 'png', 'valid', 'minify'),
    ('luamin', 'png', 'garbage', 'minify'),
    ('writep8', 'p8', 'absent', 'default'),
    ('writep8', 'png', 'valid', 'default'),
    ('build_lua', 'p8', 'valid', 'default'),
    ('build_lua', 'p8', 'absent', 'default'),
    ('build_lua', 'png', 'valid', 'default'),
    ('build_gfx', 'p8', 'valid', 'minify'),
    ('build_gfx', 'png', 'valid', 'default'),
    ('build_lua_format', 'p8', 'valid', 'formatter'),
    ('build_lua_format', 'png', 'valid', 'formatter'),
    # build over a destination that is not a loadable cart: the command fails by itself; further faults on top
    ('build_lua', 'p8', 'garbage', 'default'),
    ('build_lua', 'png', 'garbage', 'minify'),
    ('build_gfx', 'p8', 'garbage', 'default'),
    # two carts in one invocation: the first one's output is new, the second one's exists
    ('luamin_two', 'p8', 'valid', 'minify'),
    ('writep8_two', 'png', 'valid', 'default'),
    ('luafmt_two', 'p8', 'garbage', 'formatter'),
)
CLI_LABEL = {'luafmt_overwrite': 'cli_luafmt_overwrite', 'luamin': 'cli_luamin', 'writep8': 'cli_writep8',
             'build_lua': 'cli_build', 'build_gfx': 'cli_build', 'build_lua_format': 'cli_build', 'lib': 'path_lib',
             'luamin_two': 'cli_two_carts', 'writep8_two': 'cli_two_carts', 'luafmt_two': 'cli_two_carts'}


def lib_scenarios():
    out = []
    i = 0
    for fmt in FORMATS:
        for dest in ('absent', 'valid', 'garbage'):
            for w in WRITERS:
                if fmt == 'png' and dest == 'garbage':
                    for gv in range(N_GARBAGE):
                        out.append({'path': 'lib', 'fmt': fmt, 'dest': dest, 'writer': w, 'garbage': gv, 'idx': i})
                        i += 1
                else:
                    out.append({'path': 'lib', 'fmt': fmt, 'dest': dest, 'writer': w, 'garbage': 0, 'idx': i})
                    i += 1
    # code too deeply nested for the AST-based formatter: the write fails by itself (RecursionError); further faults
    # are injected on top of it
    for fmt in FORMATS:
        for dest in ('absent', 'valid'):
            out.append({'path': 'lib', 'fmt': fmt, 'dest': dest, 'writer': 'formatter', 'garbage': 0, 'idx': i, 'deep': True})
            i += 1
    # no usable directory for temporary files (tempfile.tempdir points nowhere): the write fails by itself
    for fmt in FORMATS:
        for dest in ('absent', 'valid'):
            out.append({'path': 'lib', 'fmt': fmt, 'dest': dest, 'writer': 'default', 'garbage': 0, 'idx': i, 'no_tmp': True})
            i += 1
    # .p8.png with the label taken from another file (the documented label_fname argument)
    for dest in ('absent', 'valid'):
        for w in WRITERS:
            out.append({'path': 'lib', 'fmt': 'png', 'dest': dest, 'writer': w, 'garbage': 0, 'idx': i, 'label_from': True})
            i += 1
    # the directory for temporary files IS the cart's directory (TMPDIR=. / carts kept in /tmp)
    for fmt in FORMATS:
        for dest in ('absent', 'valid'):
            for w in WRITERS:
                out.append({'path': 'lib', 'fmt': fmt, 'dest': dest, 'writer': w, 'garbage': 0, 'idx': i, 'tmp_here': True})
                i += 1
    return out


def cli_scenarios():
    return [{'path': p, 'fmt': f, 'dest': d, 'writer': w, 'garbage': i % N_GARBAGE, 'idx': i}
            for i, (p, f, d, w) in enumerate(CLI_SCENARIOS)]


def scn_key(scn):
    return '%s%s%s/%s/%s/%s/g%d/%s' % (scn['path'], '+label_fname' if scn.get('label_from') else '',
                                       ('+deep' if scn.get('deep') else '') + ('+no_tmp' if scn.get('no_tmp') else '') +
                                       ('+tmp_here' if scn.get('tmp_here') else ''), scn['fmt'],
                                     scn['dest'], scn['writer'], scn.get('garbage', 0), bytes(scn['salt']).hex())


# ------------------------------------------------------------------------------------ cart material

def _bad_code(code):
    import re
    for ln in code.split(b'\n'):
        if re.match(rb'__\w+__', ln) or ln.lstrip().startswith(b'#include'):
            return True
    return False


def label_rows(seed):
    pix = expand(b'pix' + seed, 160 * 205 * 4)
    return [pix[y * 640:(y + 1) * 640] for y in range(205)]


def garbage_bytes(variant, seed, valid_png):
    v = variant % N_GARBAGE
    if v == 0:
        return expand(b'g' + seed, 300)
    if v == 1:
        return b'\x89PNG\r\n\x1a\n' + expand(b'h' + seed, 100)
    if v == 2:
        return valid_png()[:len(valid_png()) // 2]
    if v == 3:
        return valid_png()[:40]
    if v == 4:
        return b''
    if v == 5:
        return reffmt.write_p8(8, b'x=1\n', bytes(0x4300))
    if v == 6:
        return valid_png()[:-20]
    d = valid_png()
    return d[:5000] + bytes((d[5000] ^ 0xff,)) + d[5001:]


def material(scn, attempt=0):
    """Everything a scenario needs, derived from (configuration, salt, attempt)."""
    key = ('%s|%s|%s|%s|%d|' % (scn['path'], scn['fmt'], scn['dest'], scn['writer'], attempt)).encode()
    seed = key + bytes(scn['salt'])
    ch = Choices(expand(b'C11' + seed, 600))
    mem, modes = cartgen.memory_from_choices(ch)
    version = ch.pick([8, 16, 5, 29, 33, 41, 1, 255])
    code = b''
    for _try in range(8):
        code, _st = cartgen.filler_code(ch, max_lines=12)
        code = code.replace(b'\x00', b'\x01')
        if code.strip() and not _bad_code(code):
            break
    else:
        code = b'x=1\nprint("a")\n'
    has_label = (scn.get('idx', 0) + bytes(scn['salt'])[0]) % 2 == 0
    label = expand(b'lab' + seed, 8192) if has_label else None
    mem2, _m2 = cartgen.memory_from_choices(ch)
    code2 = b''
    for _try in range(8):
        code2, _st = cartgen.filler_code(ch, max_lines=6)
        code2 = code2.replace(b'\x00', b'\x01')
        if not _bad_code(code2):
            break
    else:
        code2 = b'y=2\n'
    version2 = ch.pick([8, 16, 29, 41])
    label2 = expand(b'lab2' + seed, 8192) if ch.chance(128) else None
    indent = 1 + ch.below(4)
    if scn.get('deep'):
        # an expression chain nested deeper than the AST writers can walk (they recurse once per operand): the write
        # fails by itself with RecursionError - one more internal failure source
        # (the longest chain picotool's parser still takes at this stack depth; the writers give up earlier)
        from pico8.lua import lua as plua
        code = b'x=1\n'
        for n in range(520, 60, -20):
            cand = b'-- deep\ns="a"\nx=s' + b'..s' * n + b'\nprint(x)\n'
            try:
                plua.Lua.from_lines([cand], version=8)
            except RecursionError:
                continue
            code = cand
            break
    return {'mem': mem, 'modes': modes, 'version': version, 'code': code, 'label': label, 'mem2': mem2,
            'code2': code2, 'version2': version2, 'label2': label2, 'indent': indent, 'seed': seed}


def cart_file(fmt, mem, code, version, label, seed):
    """Bytes of a valid cart file written by the reference writers."""
    if fmt == 'p8':
        return reffmt.write_p8(version, code, mem, label)
    return reffmt.write_p8png(label_rows(seed), mem, code, version)


# ------------------------------------------------------------------------------------ scenarios

class Scenario:
    def __init__(self, scn, attempt=0):
        self.scn = scn
        self.m = material(scn, attempt)
        self.path = scn['path']
        self.fmt = scn['fmt']
        self.writer = scn['writer']
        self.dest = None
        self.before = None
        self.listing = None
        self.argv = None
        self.extra = []          # other outputs the call legitimately creates (first cart of a two-cart run)
        self.good_extra = {}
        self.label_from = None

    def setup(self, td):
        m, scn = self.m, self.scn
        ext = EXT[self.fmt]
        files = {}
        other = lambda f: cart_file(f, m['mem2'], m['code2'], m['version2'], m['label2'], b'o' + m['seed'])
        main_cart = lambda f: cart_file(f, m['mem'], m['code'], m['version'], m['label'], b'm' + m['seed'])
        valid_png = lambda: _memo(self, 'vp', lambda: other('png'))
        if scn['dest'] == 'absent':
            before = None
        elif scn['dest'] == 'valid':
            before = other(self.fmt)
        else:
            before = (garbage_bytes(scn.get('garbage', 0), m['seed'], valid_png) if self.fmt == 'png'
                      else expand(b'junk' + m['seed'], 64 + m['seed'][-1]))
        if self.path == 'lib':
            dest = 'cart' + ext
            if scn.get('label_from'):
                files['label_src.p8.png'] = cart_file('png', m['mem2'], b'l=1\n', 8, None, b'L' + m['seed'])
                self.label_from = os.path.join(td, 'label_src.p8.png')
        elif self.path.endswith('_two'):
            files['a' + ext] = other(self.fmt)
            files['x' + ext] = main_cart(self.fmt)
            dest = 'x_fmt' + ext
            self.extra = [os.path.join(td, 'a_fmt' + ext)]
        elif self.path == 'luafmt_overwrite':
            dest = 'x' + ext
            before = main_cart(self.fmt)
        elif self.path in ('luamin', 'writep8'):
            files['x' + ext] = main_cart(self.fmt)
            dest = 'x_fmt' + ext
        else:  # build_*
            dest = 'out' + ext
            if self.path in ('build_lua', 'build_lua_format'):
                files['src.lua'] = m['code']
            else:
                # gfx comes from a cart of the *other* format
                ofmt = 'png' if self.fmt == 'p8' else 'p8'
                files['other' + EXT[ofmt]] = main_cart(ofmt)
        for name, data in files.items():
            with open(os.path.join(td, name), 'wb') as fh:
                fh.write(data)
        self.dest = os.path.join(td, dest)
        self.before = before
        self.reset()
        self.listing = sorted(os.listdir(td))
        p = lambda n: os.path.join(td, n)
        if self.path == 'luafmt_overwrite':
            self.argv = ['luafmt', '--overwrite', '--indentwidth', str(m['indent']), self.dest]
        elif self.path.endswith('_two'):
            self.argv = [self.path[:-4]] + (['--indentwidth', str(m['indent'])] if self.path == 'luafmt_two' else []) + \
                        [p('a' + ext), p('x' + ext)]
        elif self.path == 'luamin':
            self.argv = ['luamin', p('x' + ext)]
        elif self.path == 'writep8':
            self.argv = ['writep8', p('x' + ext)]
        elif self.path == 'build_lua':
            self.argv = ['build', self.dest, '--lua', p('src.lua')]
        elif self.path == 'build_lua_format':
            self.argv = ['build', self.dest, '--lua', p('src.lua'), '--lua-format']
        elif self.path == 'build_gfx':
            ofmt = 'png' if self.fmt == 'p8' else 'p8'
            self.argv = ['build', self.dest, '--gfx', p('other' + EXT[ofmt])]
            if self.writer == 'minify':
                self.argv.append('--lua-minify')

    def reset(self):
        """Put the destination back into its 'before' state."""
        if self.before is None:
            if os.path.exists(self.dest):
                os.unlink(self.dest)
        else:
            with open(self.dest, 'wb') as fh:
                fh.write(self.before)
        for e in self.extra:
            if os.path.exists(e):
                os.unlink(e)

    def read_dest(self):
        if not os.path.exists(self.dest):
            return None
        with open(self.dest, 'rb') as fh:
            return fh.read()

    def has_label(self):
        if self.path == 'lib':
            return self.m['label'] is not None
        if self.path in ('luafmt_overwrite', 'luamin', 'writep8') or self.path.endswith('_two'):
            return self.fmt == 'p8' and self.m['label'] is not None
        return self.fmt == 'p8' and self.scn['dest'] == 'valid' and self.m['label2'] is not None

    def call(self, inj):
        """Run picotool once. Returns its return code (0 for the library call)."""
        if self.path == 'lib':
            from pico8.game import file as pfile
            from pico8.lua import lua
            m = self.m
            g = cartgen.make_game(m['mem'], version=m['version'], code=m['code'], label=m['label'])
            W = {'default': None, 'minify': lua.LuaMinifyTokenWriter, 'formatter': lua.LuaFormatterWriter}[self.writer]
            kw = {}
            Wf = inj.writer_cls(W) if inj is not None else W
            if Wf is not None:
                kw['lua_writer_cls'] = Wf
            if self.writer == 'formatter':
                kw['lua_writer_args'] = {'indentwidth': m['indent']}
            if self.label_from:
                kw['label_fname'] = self.label_from
            if self.scn.get('no_tmp'):
                import tempfile as _tf
                old_dir = _tf.tempdir
                _tf.tempdir = os.path.join(os.path.dirname(self.dest), 'no', 'such', 'dir')
                try:
                    pfile.to_file(g, self.dest, **kw)
                finally:
                    _tf.tempdir = old_dir
                return 0
            if self.scn.get('tmp_here'):
                import tempfile as _tf
                old_dir = _tf.tempdir
                _tf.tempdir = os.path.dirname(self.dest)
                try:
                    pfile.to_file(g, self.dest, **kw)
                finally:
                    _tf.tempdir = old_dir
                return 0
            pfile.to_file(g, self.dest, **kw)
            return 0
        from pico8 import tool
        return tool.main(list(self.argv))


def _memo(obj, name, fn):
    d = obj.__dict__.setdefault('_memo', {})
    if name not in d:
        d[name] = fn()
    return d[name]


def attempt(sc, spec):
    """One picotool call under an Injector. Returns (injector, error or None, return code)."""
    spec = dict(spec or {'kind': 'none'})
    if sc.path != 'lib' and spec.get('kind') in ('lua_writer_raises', 'lua_writer_unparseable'):
        spec['patch_class'] = True
        spec['cls'] = sc.writer
    err = rc = None
    with faults.Injector(spec) as inj:
        try:
            rc = sc.call(inj)
        except Exception as e:     # a failing picotool call is what this property is about
            err = e
        except faults.InjectedInterrupt as e:      # (an injected Ctrl-C that the call let through)
            err = e
    return inj, err, rc


def internal_specs(sc):
    specs = _internal_specs(sc)
    # Ctrl-C instead of an error (a failure that is not an `Exception`): while the Lua writer runs and - added by
    # run_scenario - at the first, a middle and the last write of the encoder
    specs += [dict(sp, interrupt=True) for sp in specs if sp['kind'] == 'lua_writer_raises' and sp.get('after') in (0, 2)]
    return specs


def _internal_specs(sc):
    specs = []
    p8 = sc.fmt == 'p8'
    for on_pass in ((0, 1) if p8 else (0,)):
        for after in (0, 1, 2, 5, BIG):
            specs.append({'kind': 'lua_writer_raises', 'on_pass': on_pass, 'after': after})
    for v in range(4):
        for at in ('start', 'end'):
            if v in (1, 3) and at == 'start':
                # an unclosed [[ or " in front of the code may be closed by a ]] or " in the code
                # (picotool's lexer lets a quoted string run over line ends): not reliably unparseable
                continue
            # (for .p8.png the encoder has no sanity re-parse: the write may legitimately succeed; but IF the
            # call fails - e.g. a variant that validates the written cart - the destination must be intact)
            if p8 or (v, at) in ((0, 'end'), (2, 'end')):
                specs.append({'kind': 'lua_writer_unparseable', 'variant': v, 'at': at})
    if p8:
        secs = ['gfx'] + (['label'] if sc.has_label() else []) + ['gff', 'map', 'sfx', 'music']
        for s in secs:
            for after in (0, 1, BIG):
                specs.append({'kind': 'section_raises', 'section': s, 'method': 'to_lines', 'after': after})
    else:
        for s in ('gfx', 'map', 'gff', 'music', 'sfx'):
            specs.append({'kind': 'section_raises', 'section': s, 'method': 'to_bytes', 'after': 0})
        specs.append({'kind': 'compress_raises'})
        for r in (0, 100, BIG):
            specs.append({'kind': 'png_writer_raises', 'after_rows': r})
    return specs


def _expected_error(spec, err):
    """Guard against harness slips: when our fault fired, the error that came out must stem from it."""
    kind = spec.get('kind')
    if kind == 'lua_writer_unparseable':
        from pico8.lua import lexer, parser
        return isinstance(err, (lexer.LexerError, parser.ParserError)) or faults.has_injected(err)
    return faults.has_injected(err)


def judge(sc, spec, inj, err, rc, good, td, case):
    """The oracle for one run. Returns (fired, labels). Resets the destination when the run changed it
    legitimately."""
    kind = spec.get('kind')
    fired = inj.fired or kind in ('label_unreadable', 'natural') or bool(spec.get('expect_natural'))
    failed = err is not None or (rc not in (0, None))
    after = sc.read_dest()
    listing = sorted(os.listdir(td))
    what = '%s %s over %s destination, %s writer, fault %s' % (
        sc.path, EXT[sc.fmt], sc.scn['dest'], sc.writer,
        ', '.join('%s=%s' % kv for kv in sorted(spec.items())))
    labs = []
    if failed:
        # (an error that does not stem from the injected fault is a harness slip - unless the property is violated
        # anyway: the clauses below come first, whatever error the failing call ended with)
        unrelated = err is not None and inj.fired and not _expected_error(spec, err)
        if after != sc.before:
            if sc.before is None:
                raise Violation('%s: the call failed (%s) but created the destination (%d bytes: %s)'
                                % (what, show(repr(err) if err else 'rc=%r' % rc, 60), len(after), show(after, 60)),
                                case, 'dest-created')
            if after is None:
                raise Violation('%s: the call failed (%s) and the existing destination is gone'
                                % (what, show(repr(err) if err else 'rc=%r' % rc, 60)), case, 'dest-removed')
            raise Violation('%s: the call failed (%s) and the destination changed: %d bytes before, %d after (%s)'
                            % (what, show(repr(err) if err else 'rc=%r' % rc, 60), len(sc.before), len(after),
                               show(after, 60)), case, 'dest-changed')
        for e in sc.extra:
            # the output of an earlier cart of the same invocation: absent, or complete
            if os.path.exists(e):
                with open(e, 'rb') as fh:
                    data = fh.read()
                if data != sc.good_extra.get(e):
                    raise Violation('%s: the call failed (%s) and left %s, which did not exist before, with %d bytes that '
                                    'are not the complete output for that cart' % (what, show(repr(err) if err else 'rc=%r' % rc, 60),
                                                                                    os.path.basename(e), len(data)), case, 'dest-created')
                os.unlink(e)
                listing = sorted(os.listdir(td))
                labs.append('earlier_cart_output_complete')
        if listing != sc.listing:
            raise Violation('%s: the failed call changed the directory listing: %r -> %r'
                            % (what, sc.listing, listing), case, 'stray-files')
        if unrelated:
            raise HarnessError('fault %r fired (%s) but the call raised an unrelated %r' % (spec, inj.fired_what, err))
        if not fired:
            labs.append('failed_without_fault')
        elif kind in ('label_unreadable', 'natural'):
            labs.append(kind + '_failed')
        return fired, labs
    # the call reported success
    if kind == 'lua_writer_unparseable' and sc.fmt != 'p8':
        # no failure happened: the .p8.png encoder accepts whatever the writer emits
        labs.append('unparseable_accepted_by_png_encoder')
        sc.reset()
        return fired, labs
    if not fired:
        labs.append('fault_not_reached')
    else:
        labs.append('fault_swallowed')
        if kind in ('label_unreadable', 'natural'):
            labs.append('expected_failure_did_not_happen')
        elif after != sc.before and (good is None or after != good):
            raise Violation('%s: the fault fired (%s), the call reported success and the destination now holds '
                            'neither its previous content nor the fault-free result (%s bytes: %s)'
                            % (what, inj.fired_what, 'no' if after is None else len(after), show(after or b'', 60)),
                            case, 'success-after-fault')
    extra = [n for n in listing if n not in sc.listing and n not in [os.path.basename(e) for e in sc.extra]]
    if extra and extra != [os.path.basename(sc.dest)]:
        raise Violation('%s: stray files %r' % (what, extra), case, 'stray-files')
    sc.reset()
    return fired, labs


def dry_run(sc, td, case):
    """Fault-free run. Returns (N, good bytes) or None when picotool fails by itself (judged)."""
    inj, err, rc = attempt(sc, None)
    if err is not None or rc not in (0, None):
        judge(sc, {'kind': 'natural'}, inj, err, rc, None, td, case)
        return None
    good = sc.read_dest()
    if good is None:
        raise Violation('%s %s: fault-free call returned success but wrote no destination' % (sc.path, EXT[sc.fmt]),
                        case, 'no-output')
    n = inj.count
    for e in sc.extra:
        if not os.path.exists(e):
            raise Violation('%s %s: fault-free call did not write %s' % (sc.path, EXT[sc.fmt], os.path.basename(e)), case, 'no-output')
        with open(e, 'rb') as fh:
            sc.good_extra[e] = fh.read()
    sc.reset()
    return n, good


def open_scenario(scn, td, case):
    """Find a cart (attempt 0..5) for which the fault-free call works. Returns (Scenario, N, good) or
    (Scenario, None, None)."""
    sc = None
    for att in range(6):
        sub = os.path.join(td, 'a%d' % att)
        os.mkdir(sub)
        sc = Scenario(scn, att)
        sc.setup(sub)
        sc.td = sub
        sc.attempt = att
        if scn['fmt'] == 'png' and scn['dest'] == 'garbage':
            return sc, None, None           # every call fails on the label: no dry run possible
        if scn['path'] == 'build_lua_format':
            return sc, None, None
        r = dry_run(sc, sub, case)
        if r is not None:
            return sc, r[0], r[1]
    return sc, None, None


def post_batch(sc, good, case):
    """No leaked state: patches gone, and a fault-free write still works and gives the same bytes."""
    try:
        faults.check_clean()
    except RuntimeError as e:
        raise HarnessError(str(e))
    if good is None:
        return
    try:
        rc = sc.call(None)
    except Exception as e:
        raise Violation('%s %s: fault-free call after the injected runs raised %r' % (sc.path, EXT[sc.fmt], e),
                        case, 'post-batch')
    if rc not in (0, None) or sc.read_dest() != good:
        raise Violation('%s %s: fault-free call after the injected runs gives a different result (rc=%r)'
                        % (sc.path, EXT[sc.fmt], rc), case, 'post-batch')
    sc.reset()


def base_labels(sc):
    labs = [CLI_LABEL[sc.path], 'fmt_' + sc.fmt, 'dest_' + sc.scn['dest'], 'writer_' + sc.writer]
    if sc.scn.get('label_from'):
        labs.append('label_fname_given')
    if sc.scn.get('tmp_here'):
        labs.append('temp_dir_is_cart_dir')
    if sc.fmt == 'p8':
        labs.append('label' if sc.has_label() else 'no_label')
    return labs


def run_spec_result(ctx, sc, spec, inj, err, rc):
    """Judge a run that failed by itself (code too deep) with or without an injected fault on top."""
    case = {'scn': dict(sc.scn), 'spec': dict(spec)}
    fired, labs = judge(sc, spec, inj, err, rc, None, sc.td, case)
    labs = [x for x in labs if x != 'failed_without_fault'] + base_labels(sc) + [
        'deep_code_natural_failure' if sc.scn.get('deep') else 'no_tmp_dir_natural_failure' if sc.scn.get('no_tmp')
        else 'build_over_unloadable_out']
    ctx.stats.case((scn_key(sc.scn), sorted(spec.items())), sc.before is not None,
                   {'scenario': scn_key(sc.scn), 'fault': dict(spec), 'outcome': show(repr(err), 70) if err is not None else 'rc=%r' % rc}
                   if spec['kind'] == 'natural' else None, labs)


def run_spec(ctx, sc, spec, good, n):
    case = {'scn': dict(sc.scn), 'spec': dict(spec)}
    inj, err, rc = attempt(sc, spec)
    fired, labs = judge(sc, spec, inj, err, rc, good, sc.td, case)
    kind = spec['kind']
    labs = labs + base_labels(sc) + [kind, '%s:%s:%s' % (kind, sc.fmt, sc.scn['dest'])]
    if kind == 'lua_writer_raises' and fired:
        labs.append('lua_writer_raises_pass%d' % spec.get('on_pass', 0))
    if kind == 'section_raises' and fired:
        labs.append('section_raises_' + spec['section'])
    if spec.get('interrupt'):
        labs.append('interrupted_by_ctrl_c')
    if kind == 'stream_write' and fired and not spec.get('interrupt'):
        key = 'kdone:' + scn_key(sc.scn)
        ctx.stats.extra[key] = ctx.stats.extra.get(key, 0) + 1
        if inj.origins and set(inj.origins) != {'temp'}:
            labs.append('stream_not_tempfile')
    sample = {'scenario': scn_key(sc.scn), 'fault': dict(spec), 'N': n, 'fired': inj.fired_what,
              'outcome': show(repr(err), 70) if err is not None else 'rc=%r' % rc,
              'dest_bytes_before': None if sc.before is None else len(sc.before)}
    nontrivial = fired and sc.before is not None
    sampled = ctx.__dict__.setdefault('_c11_sampled', set())
    if nontrivial and kind not in sampled:
        sampled.add(kind)           # one written-out sample per fault kind rather than six consecutive k
    else:
        sample = None
    ctx.stats.case((scn_key(sc.scn), sorted(spec.items())), nontrivial, sample, labs)


def run_scenario(ctx, scn, si):
    case0 = {'scn': dict(scn), 'spec': {'kind': 'none'}}
    with tempfile.TemporaryDirectory(prefix='c11_') as td:
        if ctx.quick:
            # few scenarios: every shard opens each scenario and takes its slice of the fault list
            mine = lambda i: (i + si) % ctx.nshards == ctx.shard
            owner = ctx.shard == 0
        else:
            # many scenarios: a scenario (with its whole fault list) belongs to one shard
            if si % ctx.nshards != ctx.shard:
                return
            mine = lambda i: True
            owner = True
        if scn.get('deep') or scn.get('no_tmp') or (scn['path'].startswith('build') and scn['dest'] == 'garbage'):
            if not mine(0):
                return
            sub = os.path.join(td, 'a0')
            os.mkdir(sub)
            sc = Scenario(scn, 0)
            sc.setup(sub)
            sc.td = sub
            sc.attempt = 0
            for spec in ([{'kind': 'natural'}] + [{'kind': 'stream_write', 'k': k, 'expect_natural': True} for k in (0, 1, 2, 5, 9)] +
                         [{'kind': 'section_raises', 'section': 'gfx', 'method': 'to_lines' if scn['fmt'] == 'p8' else 'to_bytes',
                           'after': 0, 'expect_natural': True}]):
                inj, err, rc = attempt(sc, spec)
                if err is None and rc in (0, None) and not inj.fired:
                    ctx.stats.count('expected_natural_failure_did_not_happen')     # (a tree that copes)
                    sc.reset()
                    continue
                run_spec_result(ctx, sc, spec, inj, err, rc)
            post_batch(sc, None, case0)
            return
        single = ('label_unreadable' if scn['fmt'] == 'png' and scn['dest'] == 'garbage' else
                  'natural' if scn['path'] == 'build_lua_format' else None)
        if single and not mine(0):
            return
        sc, n, good = open_scenario(scn, td, case0)
        if single:
            run_spec(ctx, sc, {'kind': single}, None, None)
            post_batch(sc, None, case0)
            return
        if n is None:
            ctx.stats.count('no_working_cart')
            return
        if sc.attempt and owner:
            # picotool failed by itself on the first cart(s) (judged like any failure); another cart is used
            ctx.stats.count('cart_regenerated_after_natural_failure')
        ctx.stats.extra.setdefault('scenarios', set()).add('%s=%d' % (scn_key(scn), n))
        specs = [{'kind': 'stream_write', 'k': k} for k in range(n)] + internal_specs(sc)
        specs += [{'kind': 'stream_write', 'k': k, 'interrupt': True} for k in sorted({0, n // 2, n - 1}) if 0 <= k < n]
        for i, spec in enumerate(specs):
            if mine(i):
                run_spec(ctx, sc, spec, good, n)
        post_batch(sc, good, case0)
        ctx.stats.count('post_batch_ok')


def draw_salts(ctx, name, n):
    """n cart salts from Hypothesis, identical in every shard (so that the shards split ONE k range)."""
    c0 = Ctx(ctx.prop, ctx.tier, ctx.seed, 0, 1)
    out = []

    def body(b):
        b = bytes(b)
        if any(b) and b not in out:      # Hypothesis' first draw is all zeros for every seed: skip it
            out.append(b)
    c0.hyp(name, st.binary(min_size=6, max_size=6), body, max_examples=n + 3)
    i = 0
    while len(out) < n:
        out.append(expand(b'pad%d|%d' % (i, ctx.seed), 6))
        i += 1
    return out[:n]


def _excluded(ctx):
    ctx.stats.exclude('unparseable_writer_for_p8png_is_not_a_failure_source')
    ctx.stats.exclude('compress_or_png_writer_fault_for_p8')
    ctx.stats.exclude('io_error_during_final_copy_into_destination')


def earlier_cli_command(ctx):
    """Options of an earlier p8tool command in the same process (verbosity is process-wide in pico8.util, and
    tool.main never puts it back): odd shards run everything after `p8tool --debug stats x.p8`, shards divisible by
    4 after `p8tool -q stats x.p8`."""
    from pico8 import tool
    opt = '--debug' if ctx.shard % 2 == 1 else ('-q' if ctx.shard % 4 == 0 else None)
    if opt is None:
        return
    with tempfile.TemporaryDirectory(prefix='c11v_') as td:
        p = os.path.join(td, 'x.p8')
        with open(p, 'wb') as fh:
            fh.write(reffmt.write_p8(8, b'x=1\n', bytes(0x4300)))
        try:
            tool.main([opt, 'stats', p])
        except BaseException:
            pass
    ctx.stats.count('after_earlier_command_with_' + opt.strip('-'))


def part_lib(ctx):
    ctx.stats.extra['exhaustive'] = True
    earlier_cli_command(ctx)
    if ctx.shard == 0:
        _excluded(ctx)
    salts = draw_salts(ctx, 'lib', 1 if ctx.quick else 10)
    si = 0
    for salt in salts:
        for scn in lib_scenarios():
            scn = dict(scn, salt=salt)
            run_scenario(ctx, scn, si)
            si += 1


def part_cli(ctx):
    ctx.stats.extra['exhaustive'] = True
    earlier_cli_command(ctx)
    salts = draw_salts(ctx, 'cli', 1 if ctx.quick else 5)
    si = 0
    for salt in salts:
        for scn in cli_scenarios():
            scn = dict(scn, salt=salt)
            run_scenario(ctx, scn, si)
            si += 1


def parts(tier):
    if tier == 'quick':
        return [('lib', part_lib, 6), ('cli', part_cli, 10)]
    return [('lib', part_lib, 16), ('cli', part_cli, 16)]


def replay(case):
    scn = dict(case['scn'])
    spec = dict(case.get('spec') or {'kind': 'none'})
    scn['salt'] = bytes(scn['salt'])
    with tempfile.TemporaryDirectory(prefix='c11r_') as td:
        sc, n, good = open_scenario(scn, td, case)
        if spec.get('kind') in ('none', None):
            post_batch(sc, good, case)
            return
        if n is None and spec.get('kind') not in ('label_unreadable', 'natural'):
            return
        inj, err, rc = attempt(sc, spec)
        judge(sc, spec, inj, err, rc, good, sc.td, case)
        post_batch(sc, good, case)


def vacuity(total, tier):
    msgs = []
    need = ['stream_write', 'lua_writer_raises', 'lua_writer_raises_pass0', 'lua_writer_raises_pass1',
            'lua_writer_unparseable', 'section_raises', 'compress_raises', 'png_writer_raises', 'label_unreadable',
            'label_unreadable_failed', 'cli_luafmt_overwrite', 'cli_luamin', 'cli_writep8', 'cli_build', 'path_lib',
            'fmt_p8', 'fmt_png', 'dest_absent', 'dest_valid', 'dest_garbage', 'writer_default', 'writer_minify',
            'writer_formatter', 'label', 'no_label', 'post_batch_ok', 'cli_two_carts', 'earlier_cart_output_complete',
            'label_fname_given', 'temp_dir_is_cart_dir', 'interrupted_by_ctrl_c', 'deep_code_natural_failure', 'no_tmp_dir_natural_failure',
            'build_over_unloadable_out', 'after_earlier_command_with_debug', 'after_earlier_command_with_q',
            'stream_write:p8:absent', 'stream_write:p8:valid', 'stream_write:p8:garbage',
            'stream_write:png:absent', 'stream_write:png:valid']
    need += ['section_raises_' + s for s in ('gfx', 'label', 'gff', 'map', 'sfx', 'music')]
    for lab in need:
        if total.classes.get(lab, 0) < 1:
            msgs.append('class %s never exercised' % lab)
    for lab in ('failed_without_fault', 'no_working_cart'):
        if total.classes.get(lab, 0):
            msgs.append('%d runs counted as %s' % (total.classes[lab], lab))
    # the write-index dimension really was enumerated completely, once, for every sampled cart
    seen = {}
    for item in total.extra.get('scenarios', ()):
        key, _, n = item.rpartition('=')
        seen.setdefault(key, set()).add(int(n))
    if not seen:
        msgs.append('no scenario was enumerated')
    for key, ns in sorted(seen.items()):
        done = total.extra.get('kdone:' + key, 0)
        if len(ns) != 1:
            msgs.append('shards disagree on the write count of %s: %r' % (key, sorted(ns)))
        elif done != list(ns)[0]:
            msgs.append('%s: %d of %d write indices were faulted' % (key, done, list(ns)[0]))
    return msgs


def finish(total, cov, tier):
    table = {}
    for item in total.extra.get('scenarios', ()):
        key, _, n = item.rpartition('=')
        table[key] = int(n)
    for k in [k for k in cov if k.startswith('kdone:')]:
        del cov[k]
    cov.pop('scenarios', None)
    cov['write_calls_per_scenario'] = dict(sorted(table.items()))
    cov['injected_stream_faults'] = sum(table.values())
