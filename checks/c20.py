"""C20 - `#include NAME[:n]` lines of a .p8 cart are replaced by exactly the named file / cart code / tab."""
import os
import tempfile

from hypothesis import strategies as st

from vlib.runner import Violation, show
from vlib.choices import Choices, expand
from vlib import cartgen, reffmt

PROPERTY = 'C20'
LEVEL = 'exploration'
RULE = ('case = a fresh directory holding 1-4 include targets and an including cart main.p8, all decoded from one '
        '144-byte draw. Targets: .lua files (0-5 lines, LF or CRLF, with/without final newline, empty), .p8 carts '
        'and .p8.png carts written by the reference writers (REFFMT/REFPNG; raw code area, generated label picture; '
        '.p8 files with all-zero data either with all sections or, as PICO-8 writes them, with the empty ones left out) '
        'whose code has 0-5 `-->8` separator lines (empty tabs, separator first/last, near-miss lines such as '
        '`--->8`, `x=1 -->8`), some containing their own `#include` lines; placed in the cart directory or in '
        'lib/, sub/dir/, a-b.c/; names with dashes, dots and digits (old.p8.lua, util.lua.p8, v1.2.p8.png). '
        'main.p8 (reference writer): 0-5 one-line statements with 0-4 include lines inserted at drawn positions '
        '(first/last/middle/adjacent, the same target twice), padded with leading/trailing blanks, cart targets '
        'with selector :n for n in 0..separators+2. Part "missing" redirects one include line to a target that '
        'does not exist (unknown name, existing stem with another extension, existing or absent sub-directory, '
        'with selector). Non-trivial = >= 2 include lines or a tab selector; distinct by generating seed.'
        " A third of the carts are loaded by bare file name from inside their own directory (one process loads many different `main.p8`). The cart lives in a scratch directory, directly in ~/.lexaloffle/pico-8/carts (HOME redirected) or in a game folder below it (include names stay relative to the cart's own directory; same-named decoy files sit in the carts directory)."
        ' An eighth of the cart targets use 14-18 editor tabs, with selectors at the last tabs and one past them.'
        ' Cart targets without code may lack the __lua__ section altogether (two fixed specs and random ones); string statements of targets may hold P8SCII bytes that are well-formed UTF-8.'
        ' .lua targets may contain a bare CR inside a long string / comment; near-separator lines include indented -->8.'
        ' An eighth of the carts include themselves (main.p8, main.p8:0, main.p8:1, ./main.p8: the code as stored, not expanded again); a quarter hold a long comment / long string with a line that starts like an include line but names no .lua/.p8/.p8.png file (passed through unchanged).'
        ' Cart targets may hold an include line inside an open table constructor (not expanded, ordinary text), or a block comment / long string that runs across a `-->8` line (tabs are counted on text lines).')
ASSUMPTIONS = [
    'tab numbering is the one picotool documents (lines_for_tab, game_test.py): tab 0 is the code before the first '
    'line starting with `-->8`, tab n the lines after the n-th and before the (n+1)-th such line; the separator '
    'lines themselves belong to no tab; a selector past the last tab selects no lines',
    'junction: "replaced by the lines of NAME" + "every other line unchanged and in place" is read as: each spliced '
    'chunk ends in a line break, so when the target\'s last line has no final newline the loaded code must still '
    'have a line break (LF or CRLF accepted) between it and the next line of the including cart',
    'the whole loaded code is compared modulo one newline at the very end',
    '"the Lua code of a .p8.png cart" is taken modulo one trailing newline (the reader supplies one to raw code, as '
    'C04 states): after a chunk that reaches the end of a .p8.png target\'s code one extra empty line is accepted',
    'include lines inside included .lua files stay verbatim too ("the file\'s own lines")',
    'only documented shapes are generated: targets inside the cart\'s directory tree (escape is C12), `:n` only on '
    'cart targets, nothing after NAME on the include line but blanks, ASCII in .lua files, one complete statement '
    'per line so every splice lexes and parses',
    'a missing target must make file.from_file raise an exception derived from Exception (any type)',
    'VERIF_C20_AVOID=nofinalnl (or an open known finding tagged nofinalnl) gives every .lua target a final '
    'newline; .p8/.p8.png targets cannot lack one after reading (the formats supply it) and keep their variety',
]
LEVEL_TEXT = ('Exploration: generated cart directories; the expected code is a reference splice computed from the '
              'files the harness wrote itself (own include-line parser, own tab splitter, reference cart writers), '
              'compared byte for byte with what picotool loads.')
LEVEL_NOTE = ('Trusted: vlib/reffmt.py + vlib/refpng.py writers (self-checked per case by the reference readers), '
              'LuaEchoWriter reproducing the token stream (C03/C06).')
TECHNIQUE = 'Hypothesis-generated cart directories; differential oracle against a reference splice; error-clause part'

AVOID_ENV = 'VERIF_C20_AVOID'
SEED_LEN = 144
EXT = {'lua': '.lua', 'p8': '.p8', 'p8png': '.p8.png'}
STEMS = ('x', 'inc', 'my-lib', 'v1.2', 'lib2', 't-9.b', 'old.p8', 'util.lua', '7')
DIRS = ((5, ''), (2, 'lib/'), (2, 'sub/dir/'), (1, 'a-b.c/'))
WORDS = (b'x', b'go', b'hi there', b'tab 1', b'p8')
NEAR_SEPARATORS = (b'x=1 -->8', b'--->8', b'-- >8', b'--8', b'-- -->8', b'  -->8', b'\t-->8', b' -->8  ')
SEPARATOR = b'-->8'
# lines that start like an include line but are not one (no .lua/.p8/.p8.png name): prose in a long comment or string
LOOKALIKES = (b'#include notes.txt', b'#include <file> is not supported here', b'  #include lines pull in the library',
              b'#include', b'#include  ', b'\t#include data.bin', b'#include lib/', b'#includes x')
PLACES = ('plain', 'plain', 'carts_root', 'carts_sub')


class SelfCheckError(Exception):
    """The harness' own files/readers disagree - never a verdict about picotool."""


def avoid_from_env(ctx=None):
    tags = set(t.strip() for t in os.environ.get(AVOID_ENV, '').split(',') if t.strip())
    if ctx is not None and 'nofinalnl' in ctx.open_findings:
        tags.add('nofinalnl')
    return tags


# ---------------------------------------------------------------- generator

def stmt(ch, high_ok=False):
    """One complete one-line statement / comment / blank line (no line end)."""
    k = ch.below(11)
    n = ch.below(10)
    if k == 0:
        return b'a%d=%d' % (n, ch.below(100))
    if k == 1:
        return b'print("%s")' % ch.pick(WORDS)
    if k == 2:
        return b'-- note %d' % n
    if k == 3:
        return b''
    if k == 4:
        return b'local v%d=%d' % (n, ch.below(100))
    if k == 5:
        return b'  b%d = %d  ' % (n, ch.below(10))
    if k == 6:
        return b'if a%d then c%d=1 end' % (n, n)
    if k == 7:
        return b'function f%d() return %d end' % (n, n)
    if k == 8:
        return b'f%d()' % n
    if k == 9:
        return ch.pick(NEAR_SEPARATORS)
    if k == 10 and high_ok:
        raw = bytes(0x80 + b % 0x80 for b in ch.take(1 + ch.below(4)))
        if raw[0] % 4 == 0:
            # P8SCII bytes that happen to be well-formed UTF-8 (of a glyph of the character set): an included cart's
            # code has already been decoded once
            raw = (b'\xc2\xa5', b'\xcb\x87', b'\xe3\x81\x82', b'\xe2\x96\xae \xe2\x97\x8b', b'\xe3\x82\xa2\xe3\x82\xa4')[raw[-1] % 5]
        return b's%d="%s"' % (n, raw)
    return b'd%d+=1' % n


def gen_spec(seed, avoid=(), missing=False):
    """All choices about main.p8 are drawn first, so that an exhausted stream only simplifies the tail of the
    last targets."""
    ch = Choices(seed)
    nt = ch.weighted([(3, 1), (3, 2), (2, 3), (1, 4)])
    k = ch.weighted([(1, 0), (3, 1), (3, 2), (2, 3), (2, 4)])
    if missing and k == 0:
        k = 1
    items = [stmt(ch, high_ok=True) if not ch.chance(12) else b'-- #include x.lua' for _ in range(ch.below(6))]
    inc_choices = [(ch.byte(), ch.chance(140), ch.byte(), ch.below(5), ch.byte()) for _ in range(k)]
    main_full = ch.chance(40)
    if missing:
        miss = (ch.below(k), ch.below(6), ch.pick(('.lua', '.p8', '.p8.png')), ch.byte(), ch.pick(('.p8', '.p8.png')),
                ch.below(3), ch.pick(STEMS))
    targets = []
    used = set()
    for i in range(nt):
        kind = ch.weighted([(3, 'lua'), (3, 'p8'), (2, 'p8png')])
        d = ch.weighted(list(DIRS))
        stem = ch.pick(STEMS)
        if targets and targets[-1]['kind'] != 'lua' and kind != 'lua' and kind != targets[-1]['kind'] and ch.chance(90):
            # a cart and its exported twin: same directory, same stem, .p8 next to .p8.png
            prev = targets[-1]['path']
            d, stem = prev[:prev.rfind('/') + 1], prev[prev.rfind('/') + 1:].split('.p8')[0]
        path = d + stem + EXT[kind]
        if path in used:
            path = d + stem + str(i) + EXT[kind]
        used.add(path)
        targets.append({'path': path, 'kind': kind})
    lua_paths = [t['path'] for t in targets if t['kind'] == 'lua']
    for t in targets:
        # what a nested include line inside this target names: another generated .lua file (so that wrongly
        # expanding it changes the result) or a file that does not exist (so that expanding it fails)
        others = [p for p in lua_paths if p != t['path']]
        nested = ch.pick(others).encode() if others and ch.chance(160) else b'other.lua'
        nested_line = None
        if ch.chance(80):
            nested_line = ch.pick((b'#include ', b'  #include ', b'#include  ')) + nested
        if t['kind'] == 'lua':
            lines = [stmt(ch) for _ in range(ch.below(6))]
            if nested_line:
                lines.insert(ch.below(len(lines) + 1), nested_line)
            if lines and ch.chance(40):
                lines.insert(ch.below(len(lines) + 1), SEPARATOR)
            nl = b'\r\n' if ch.chance(48) else b'\n'
            if len(seed) >= 8 and bytes(seed)[-8] % 8 == 3:
                # a bare CR inside the file (in a long string), which is not a line end of the file
                lines = lines + [b's=[[one\rtwo]]', b'-- c \r x']
            final_nl = not ch.chance(100)
            if 'nofinalnl' in avoid:
                final_nl = True
            data = nl.join(lines)
            if lines and final_nl:
                data += nl
            t['data'] = data
        else:
            seps = ch.below(6)
            if len(seed) >= 3 and bytes(seed)[-3] % 8 == 5:
                seps = 13 + bytes(seed)[-2] % 5       # a cart using (about) all 16 editor tabs
            lines = []
            for tab in range(seps + 1):
                if tab:
                    lines.append(SEPARATOR)
                for _ in range(ch.below(4)):
                    lines.append(stmt(ch, high_ok=True))
            if nested_line:
                lines.insert(ch.below(len(lines) + 1), nested_line)
            odd = bytes(seed)[-15] if len(seed) >= 15 else 0
            if odd % 8 == 1 and seps >= 1:
                # an include line inside an open construct of the included cart (a data table filled from a file): the
                # cart is fine once ITS includes are expanded, and nobody asked for that - the line is ordinary text here
                lines[0:0] = [b'dat={', b'#include ' + nested, b'}']
                t['include_inside_block'] = True
            elif odd % 8 == 2 and seps >= 1:
                # a block comment (code switched off) that runs across a tab boundary: tabs are the `-->8` LINES of the text
                k = [i for i, ln in enumerate(lines) if ln == SEPARATOR][0]
                lines.insert(k, b'--[[ old')
                lines.insert(k + 2, b'still old ]]')
                t['comment_across_tabs'] = True
            elif odd % 8 == 3 and seps >= 1:
                k = [i for i, ln in enumerate(lines) if ln == SEPARATOR][0]
                lines.insert(k, b'txt=[[line')
                lines.insert(k + 2, b'more]]')
                t['comment_across_tabs'] = True
            code = b'\n'.join(lines)
            if lines and not ch.chance(100):
                code += b'\n'
            t['code'] = code
            t['version'] = ch.pick((8, 16, 33, 41, 5) if t['kind'] == 'p8' else (8, 1, 33, 0))
            t['mem_seed'] = ch.take(5) if ch.chance(48) else None
            t['full'] = t['mem_seed'] is not None or ch.chance(40)
            t['label'] = ch.below(3)
            # a compressed code area: the .p8.png reader then returns the code as stored (no newline supplied)
            t['compressed'] = t['kind'] == 'p8png' and t['version'] != 0 and ch.chance(110)
    inc_lines = []
    for (ti, want_sel, sel_raw, form, pos_raw) in inc_choices:
        t = targets[ti % nt]
        name = t['path'].encode()
        if t['kind'] != 'lua' and (want_sel or t.get('include_inside_block')):
            nsep = sum(1 for ln in lines_of(t['code']) if ln.startswith(SEPARATOR))
            if t.get('include_inside_block'):
                name += b':%d' % (1 + sel_raw % (nsep + 2))      # (any tab but the one holding the block)
            elif t.get('comment_across_tabs'):
                name += b':%d' % (2 + sel_raw % (nsep + 1))      # (a tab the two-tab token does not touch)
            elif nsep >= 13:
                name += b':%d' % (nsep + 1 - sel_raw % 5)       # the last tabs and one past them
            else:
                name += b':%d' % (sel_raw % (nsep + 3))
        pre, mid, post = ((b'', b' ', b''), (b'  ', b' ', b''), (b'', b' ', b'  '), (b' ', b'   ', b' '),
                          (b'    ', b'  ', b'   '))[form]
        line = pre + b'#include' + mid + name + post
        inc_lines.append(line)
        items.insert(pos_raw % (len(items) + 1), line)
    extra = bytes(seed)[-13] if len(seed) >= 13 else 0
    self_include = False
    if extra % 8 == 2 and not missing:
        # the cart includes itself (whole, or one of its own tabs): the included text is the cart's code as stored,
        # include lines and all -- included carts are not expanded again
        self_include = True
        if extra & 64:
            items.insert((extra // 8) % (len(items) + 1), SEPARATOR)
        items.insert(bytes(seed)[-14] % (len(items) + 1),
                     (b'#include main.p8', b'#include main.p8:0', b'#include main.p8:1', b' #include ./main.p8')[(extra // 8) % 4])
    if extra % 4 == 1:
        at = bytes(seed)[-14] % (len(items) + 1)
        opener, closer = ((b'--[[ usage:', b']]'), (b'help=[[', b']]'), (b'--[==[', b']==]'))[(extra // 4) % 3]
        items[at:at] = [opener, LOOKALIKES[(extra // 16) % len(LOOKALIKES)], closer]
    spec = {'main_code': b''.join(ln + b'\n' for ln in items), 'main_full': main_full, 'targets': targets,
            'dirs': [], 'expect': 'splice', 'self_include': self_include}
    if missing:
        victim_i, variant, ext, t_raw, cart_ext, sel, stem2 = miss
        victim = inc_lines[victim_i]
        if variant == 0:
            name = 'nope' + ext
        elif variant == 1:
            t = targets[t_raw % nt]
            name = t['path'][:-len(EXT[t['kind']])] + ext
        elif variant == 2:
            spec['dirs'].append('lib')
            name = 'lib/gone' + ext
        elif variant == 3:
            name = 'nodir/x' + ext
        elif variant == 4:
            name = 'gone' + cart_ext + ':%d' % sel
        else:
            name = stem2 + '-2' + ext
        if name.split(':')[0] in used:
            name = 'nope-' + name.replace('/', '-')
        idx = [i for i, ln in enumerate(items) if ln is victim][0]
        items[idx] = b'#include ' + name.encode()
        spec['main_code'] = b''.join(ln + b'\n' for ln in items)
        spec['expect'] = 'error'
        spec['missing_name'] = name
        spec['missing_variant'] = variant
    return spec


# ---------------------------------------------------------------- reference splice

def lines_of(data):
    """bytes -> lines, each keeping its own line end; the last may lack one."""
    parts = bytes(data).split(b'\n')
    out = [p + b'\n' for p in parts[:-1]]
    if parts[-1]:
        out.append(parts[-1])
    return out


def ensure_nl(code):
    return code if (not code or code.endswith(b'\n')) else code + b'\n'


def parse_include(line):
    """Own reading of an include line: (path str, selector or None), or None when the line is not one."""
    s = line.strip(b' \t\r\n')
    if not s.startswith(b'#include') or s[8:9] not in (b' ', b'\t'):
        return None
    name = s[8:].strip(b' \t')
    if not name or b' ' in name or b'\t' in name:
        return None
    sel = None
    if not name.endswith((b'.p8.png', b'.p8', b'.lua')):
        head, sep, tail = name.rpartition(b':')
        if sep and tail.isdigit() and head.endswith((b'.p8.png', b'.p8')):
            name, sel = head, int(tail)
        else:
            return None
    return name.decode('ascii'), sel


def target_lines(t):
    """The lines an unselective include of target t stands for (as stored in the file the harness wrote)."""
    if t['kind'] == 'lua':
        return lines_of(t['data'])
    if t['kind'] == 'p8':
        return lines_of(ensure_nl(t['code']))       # the text format ends every code line with a line break
    return lines_of(t['code'])


NEWLINE_REQUIRED = ('alt', (b'\n', b'\r\n'))
NEWLINE_OPTIONAL = ('alt', (b'', b'\n'))


def chunk_segments(t, sel):
    lines = target_lines(t)
    nsep = sum(1 for ln in lines if ln.startswith(SEPARATOR))
    reaches_end = sel is None or sel == nsep
    if sel is not None:
        cur = 0
        picked = []
        for ln in lines:
            if ln.startswith(SEPARATOR):
                cur += 1
            elif cur == sel:
                picked.append(ln)
        lines = picked
    segs = [('lit', b''.join(lines))] if lines else []
    if lines and not lines[-1].endswith(b'\n'):
        segs.append(NEWLINE_REQUIRED)
    if t['kind'] == 'p8png' and reaches_end:
        segs.append(NEWLINE_OPTIONAL)
    return segs


def reference(spec):
    """-> (segments, info) ; info: list of (line_index, path, sel, target or None) per include line."""
    by_path = {t['path']: t for t in spec['targets']}
    if spec.get('self_include'):
        by_path['main.p8'] = {'path': 'main.p8', 'kind': 'p8', 'code': bytes(spec['main_code']), 'self': True}
    segs, incs = [], []
    for i, ln in enumerate(lines_of(ensure_nl(spec['main_code']))):
        inc = parse_include(ln)
        if inc is None:
            segs.append(('lit', ln))
            continue
        path, sel = inc
        t = by_path.get(os.path.normpath(path))
        incs.append((i, path, sel, t))
        if t is not None:
            segs.extend(chunk_segments(t, sel))
    return segs, incs


def matches(segs, actual):
    pos = {0}
    for kind, v in segs:
        alts = (v,) if kind == 'lit' else v
        pos = {p + len(a) for p in pos for a in alts if actual.startswith(a, p)}
        if not pos:
            return False
    return len(actual) in pos


def matches_modulo_final_newline(segs, actual):
    cands = [actual, actual + b'\n']
    if actual.endswith(b'\n'):
        cands.append(actual[:-1])
    return any(matches(segs, c) for c in cands)


def canonical(segs):
    return b''.join(v if kind == 'lit' else v[0] for kind, v in segs)


# ---------------------------------------------------------------- files

_labels = {}


def label_rows(i):
    if i not in _labels:
        if i == 0:
            rows = [bytes(640)] * 205
        else:
            pix = expand(b'c20-label-%d' % i, 160 * 205 * 4)
            rows = [pix[y * 640:(y + 1) * 640] for y in range(205)]
        _labels[i] = rows
    return _labels[i]


_file_cache = {}


def elide(data):
    """PICO-8 leaves out data sections that are empty: keep header, version line and the __lua__ section."""
    return data[:data.index(b'__gfx__\n')]


def target_file_bytes(t):
    if t['kind'] == 'lua':
        return bytes(t['data'])
    code = bytes(t['code'])
    key = (t['kind'], code, t.get('version', 8), t.get('mem_seed'), t.get('full', True), t.get('label', 0),
           t.get('compressed', False))
    if key in _file_cache:
        return _file_cache[key]
    mem = cartgen.memory_from_seed(b'\x01' + t['mem_seed'])[0] if t.get('mem_seed') else bytes(0x4300)
    if t['kind'] == 'p8':
        data = reffmt.write_p8(t.get('version', 8), code, mem)
        # (reffmt.read_p8 would also decode the 5 data sections: 10x the cost, nothing to do with the code)
        text = data.split(b'\n__lua__\n', 1)[1].split(b'__gfx__\n', 1)[0]
        back = reffmt.text_to_p8scii(text.decode('utf-8'))
        if back != ensure_nl(code) or not data.startswith(reffmt.HEADER + b'version '):
            raise SelfCheckError('reference .p8 writer/reader disagree on %r' % code)
        if not t.get('full', True) and not t.get('mem_seed'):
            data = elide(data)
        if code == b'' and t.get('label', 0) != 1:
            # an assets-only cart: no code, and no __lua__ section either (the one section a .p8 may lack)
            if b'__lua__\n__gfx__' in data:
                data = data.replace(b'__lua__\n__gfx__', b'__gfx__', 1)
            elif data.endswith(b'__lua__\n'):
                data = data[:-len(b'__lua__\n')]
    else:
        if b'\x00' in code or len(code) > 0x3d00 or code.startswith(b':c:'):
            raise SelfCheckError('code not storable raw: %r' % code[:40])
        area = reffmt.compress_literals(code) if t.get('compressed') else code
        if len(area) > 0x3d00:
            area = code
        data = reffmt.write_p8png(label_rows(t.get('label', 0)), mem, area, t.get('version', 8))
        back = reffmt.read_p8png(data)
        if back['code'] != code or back['code_kind'] != ('compressed' if area is not code else 'raw'):
            raise SelfCheckError('reference .p8.png writer/reader disagree on %r' % code)
    if len(_file_cache) > 200:
        _file_cache.clear()
    _file_cache[key] = data
    return data


def materialize(spec, root):
    for d in spec.get('dirs', ()):
        os.makedirs(os.path.join(root, d), exist_ok=True)
    for t in spec['targets']:
        p = os.path.join(root, t['path'])
        os.makedirs(os.path.dirname(p), exist_ok=True)
        with open(p, 'wb') as fh:
            fh.write(target_file_bytes(t))
    main = os.path.join(root, 'main.p8')
    data = reffmt.write_p8(spec.get('main_version', 8), bytes(spec['main_code']), bytes(0x4300))
    if not spec.get('main_full', True):
        data = elide(data)
    with open(main, 'wb') as fh:
        fh.write(data)
    return main


def describe(spec):
    d = {'main.p8 __lua__': show(spec['main_code'], 400)}
    for t in spec['targets']:
        d[t['path']] = show(t['data'] if t['kind'] == 'lua' else t['code'], 400)
    return d


# ---------------------------------------------------------------- oracle

def check_spec(spec, case):
    """Write the directory, load main.p8 with picotool, compare with the reference splice."""
    from pico8.game import file as pfile
    from vlib import prelude
    prelude.files()
    prelude.lua()
    segs, incs = reference(spec)
    missing = [path for (_i, path, _sel, t) in incs if t is None]
    case = dict(case, files=describe(spec))
    place = spec.get('place', 'plain')
    with tempfile.TemporaryDirectory(prefix='c20_') as top:
        # Where the cart lives: anywhere, or (with HOME pointing into the scratch directory) directly in / in a
        # game folder of the user's PICO-8 carts directory, whose include root is the carts directory.  Include
        # names stay relative to the cart's own directory (README), so the expected splice is the same; decoy files
        # of the same names sit in the carts directory itself.
        home = os.path.join(top, 'home')
        carts = os.path.join(home, '.lexaloffle', 'pico-8', 'carts')
        root = {'plain': os.path.join(top, 'work'), 'carts_root': carts,
                'carts_sub': os.path.join(carts, 'mygame')}[place]
        os.makedirs(root)
        os.makedirs(carts, exist_ok=True)
        main = materialize(spec, root)
        if place == 'carts_sub':
            for t in spec['targets']:
                p = os.path.join(carts, t['path'])
                if t['path'].split('/')[0] == 'mygame' or os.path.exists(p):
                    continue
                os.makedirs(os.path.dirname(p), exist_ok=True)
                decoy = dict(t)
                if t['kind'] == 'lua':
                    decoy['data'] = b'decoy_in_carts_root=1\n'
                else:
                    decoy['code'] = b'decoy_in_carts_root=1\n'
                    decoy.pop('compressed', None)
                with open(p, 'wb') as fh:
                    fh.write(target_file_bytes(decoy))
        for (_i, path, _sel, t) in incs:
            exists = os.path.isfile(os.path.join(root, path))
            if exists != (t is not None):
                raise SelfCheckError('include %r: file existence %r does not match the generated targets' % (path, exists))
        old_home = os.environ.get('HOME')
        os.environ['HOME'] = home
        # a third of the carts are named the way a shell user names them: by bare file name from inside their own
        # directory (every case has a directory of its own, so one process loads many different `main.p8`)
        by_name = len(spec['main_code']) % 3 == 0
        old_cwd = os.getcwd()
        try:
            if by_name:
                os.chdir(os.path.dirname(main))
            g = pfile.from_file(os.path.basename(main) if by_name else main)
            err = None
        except Exception as e:
            g, err = None, e
        finally:
            os.chdir(old_cwd)
            if old_home is None:
                del os.environ['HOME']
            else:
                os.environ['HOME'] = old_home
        got = None
        if err is None:
            try:
                got = b''.join(g.lua.to_lines())
            except Exception as e:
                raise Violation('to_lines() of the loaded cart raised %r' % e, case, 'load')
    if spec['expect'] == 'error':
        if not missing:
            raise SelfCheckError('error case without a missing target')
        if err is None:
            raise Violation('include target %r does not exist but the cart loaded without error; code: %s'
                            % (missing[0], show(got, 200)), case, 'missing')
        return
    if missing:
        raise SelfCheckError('splice case names a missing target %r' % missing)
    if err is not None:
        raise Violation('loading a cart whose include targets all exist raised %r (main code %s)'
                        % (err, show(spec['main_code'], 200)), case, 'load')
    if matches_modulo_final_newline(segs, got):
        return
    want = canonical(segs)
    glued = [s for s in segs if s is not NEWLINE_REQUIRED]
    if len(glued) != len(segs) and matches_modulo_final_newline(glued, got):
        raise Violation('an included file without final newline is glued to the following line of the including '
                        'cart: expected %s, loaded %s' % (show(want, 200), show(got, 200)), case, 'junction')
    i = next((i for i in range(min(len(want), len(got))) if want[i] != got[i]), min(len(want), len(got)))
    lo = max(0, i - 30)
    raise Violation('loaded code differs from the reference splice at byte %d: expected ...%s, loaded ...%s '
                    '(whole: expected %s, loaded %s)'
                    % (i, show(want[lo:i + 40]), show(got[lo:i + 40]), show(want, 160), show(got, 160)),
                    case, 'splice')


def labels_for(spec):
    segs, incs = reference(spec)
    nlines = len(lines_of(ensure_nl(spec['main_code'])))
    labs = ['includes_%d' % min(len(incs), 4)]
    idxs = [i for (i, _p, _s, _t) in incs]
    seen = set()
    stems = {}
    for (i, path, sel, t) in incs:
        if t is not None and t['kind'] != 'lua':
            stems.setdefault(path.split('.p8')[0], set()).add(t['kind'])
    if any(len(k) == 2 for k in stems.values()):
        labs.append('p8_and_png_twins_both_included')
    for (i, path, sel, t) in incs:
        if '/' in path:
            labs.append('subdir')
        if t is None:
            continue
        labs.append('kind_' + t['kind'])
        if t.get('self'):
            labs.append('cart_includes_itself')
        if t.get('include_inside_block'):
            labs.append('included_cart_has_include_line_inside_a_block')
        if t.get('comment_across_tabs') and sel is not None:
            labs.append('tab_selected_from_cart_with_token_across_tabs')
        content = t['data'] if t['kind'] == 'lua' else t['code']
        tl = target_lines(t)
        nsep = sum(1 for ln in tl if ln.startswith(SEPARATOR))
        if sel is not None:
            labs.append('tab_selector')
            if sel >= 14 and nsep >= 14:
                labs.append('tab_14_or_later_of_many')
            if sel > nsep:
                labs.append('tab_beyond_last')
            elif sel == nsep:
                labs.append('tab_last')
            if nsep and not [1 for s in chunk_segments(t, sel) if s[0] == 'lit']:
                labs.append('tab_empty')
        if t['kind'] == 'lua' and content and not content.endswith(b'\n'):
            labs.append('target_no_final_newline')
            if i != nlines - 1:
                labs.append('line_follows_target_without_final_newline')
        if t['kind'] == 'p8png' and content and not content.endswith(b'\n'):
            labs.append('p8png_code_no_final_newline')
            if t.get('compressed'):
                labs.append('p8png_compressed_no_final_newline')
        if not content:
            labs.append('empty_target')
            if t['kind'] == 'p8' and b'__lua__' not in target_file_bytes(t):
                labs.append('p8_target_without_lua_section')
        if b'\r\n' in content:
            labs.append('crlf_target')
        if any(parse_include(ln) for ln in tl) and (sel is None or
                                                    any(parse_include(ln) for ln in
                                                        lines_of(canonical(chunk_segments(t, sel))))):
            labs.append('nested_include_verbatim')
        if t['path'] in seen:
            labs.append('same_target_twice')
        seen.add(t['path'])
        if any(c in os.path.basename(t['path'])[:-len(EXT[t['kind']])] for c in '-.0123456789'):
            labs.append('name_with_dash_dot_digit')
    mlines = lines_of(ensure_nl(spec['main_code']))
    if any(ln.strip(b'\n') in LOOKALIKES for ln in mlines):
        labs.append('include_lookalike_line')
    for i in idxs:
        if mlines[i].rstrip(b'\n') != mlines[i].strip():
            labs.append('include_line_padded')
    if 0 in idxs:
        labs.append('include_first_line')
    if idxs and nlines - 1 in idxs:
        labs.append('include_last_line')
    if any(a + 1 == b for a, b in zip(idxs, idxs[1:])):
        labs.append('adjacent_includes')
    if any(0 < i < nlines - 1 for i in idxs):
        labs.append('include_middle')
    if idxs and len(idxs) == nlines:
        labs.append('only_include_lines')
    nontrivial = len(incs) >= 2 or any(sel is not None for (_i, _p, sel, _t) in incs)
    return sorted(set(labs)), nontrivial


# ---------------------------------------------------------------- parts

def one(ctx, seed, kind):
    avoid = avoid_from_env(ctx)
    spec = gen_spec(seed, avoid, missing=(kind == 'missing'))
    spec['place'] = PLACES[seed[-1] % len(PLACES)]
    case = {'kind': kind, 'seed': bytes(seed), 'avoid': sorted(avoid)}
    check_spec(spec, case)
    labs, nontrivial = labels_for(spec)
    labs = labs + ['place_' + spec['place']]
    if kind == 'missing':
        labs = ['missing_target', 'missing_variant_%d' % spec['missing_variant']] + \
               [lab for lab in labs if lab.startswith('includes_')]
    if 'nofinalnl' in avoid:
        ctx.stats.exclude('lua_target_without_final_newline(avoided)')
    ctx.stats.case(kind.encode() + bytes(seed), nontrivial,
                   dict(describe(spec), labels=labs, expect=spec['expect']), labs)


FIXED_SPECS = [
    # an assets-only cart (no code, no __lua__ section) included whole, by tab, and between other includes
    {'main_code': b'x=1\n#include assets.p8\ny=2\n#include assets.p8:0\n#include lib.lua\n#include assets.p8:1\nz=3\n',
     'targets': [{'path': 'assets.p8', 'kind': 'p8', 'code': b'', 'label': 0, 'full': True},
                 {'path': 'lib.lua', 'kind': 'lua', 'data': b'l=1\n'}]},
    {'main_code': b'#include sub/dir/assets.p8\n',
     'targets': [{'path': 'sub/dir/assets.p8', 'kind': 'p8', 'code': b'', 'label': 2, 'full': False}]},
    {'main_code': b'a=1\n-->8\nb=2\n#include main.p8:1\n--[[\n#include <file> is not supported here\n]]\n#include main.p8\n',
     'targets': [], 'self_include': True},
    # an included cart with an include line inside a table (another tab is selected); a comment across a tab boundary
    {'main_code': b'x=1\n#include inner.p8:1\ny=2\n',
     'targets': [{'path': 'inner.p8', 'kind': 'p8', 'code': b't={\n#include d.lua\n}\n-->8\nu=1\n', 'label': 0, 'full': True},
                 {'path': 'd.lua', 'kind': 'lua', 'data': b'1,2,3\n'}]},
    {'main_code': b'x=1\n#include inc.p8:2\ny=2\n#include inc.p8.png:2\n',
     'targets': [{'path': 'inc.p8', 'kind': 'p8', 'code': b'a=1\n--[[ old\n-->8\nstill old ]]\nb=2\n-->8\nc=3\n', 'label': 0, 'full': True},
                 {'path': 'inc.p8.png', 'kind': 'p8png', 'code': b'a=1\ns=[[ old\n-->8\nstill old ]]\nb=2\n-->8\nc=4\n', 'label': 1, 'version': 8}]},
]


def part_splice(ctx):
    if ctx.shard == 0:
        for k, spec in enumerate(FIXED_SPECS):
            for place in PLACES[1:]:
                sp = dict(spec, dirs=[], expect='splice', place=place, main_full=True)
                check_spec(sp, {'spec': {kk: vv for kk, vv in spec.items()}, 'kind': 'fixed'})
                labs, nontrivial = labels_for(sp)
                ctx.stats.case(b'fixed%d' % k + place.encode(), True, None, labs + ['fixed_spec'])
    ctx.hyp('splice', st.binary(min_size=SEED_LEN, max_size=SEED_LEN), lambda s: one(ctx, s, 'splice'),
            max_examples=100 if ctx.quick else 500)


def part_missing(ctx):
    ctx.hyp('missing', st.binary(min_size=SEED_LEN, max_size=SEED_LEN), lambda s: one(ctx, s, 'missing'),
            max_examples=40 if ctx.quick else 200)


def parts(tier):
    if tier == 'quick':
        return [('splice', part_splice, 6), ('missing', part_missing, 2)]
    return [('splice', part_splice, 12), ('missing', part_missing, 4)]


def replay(case):
    """case: {'kind': 'splice'|'missing', 'seed': bytes, 'avoid': [...]} as produced by the search, or a
    hand-written {'spec': {'main_code': bytes, 'targets': [{'path','kind','data'|'code'[, 'version']}],
    'expect': 'splice'|'error'}}."""
    if 'seed' in case:
        spec = gen_spec(case['seed'], set(case.get('avoid', ())), missing=(case.get('kind') == 'missing'))
        spec['place'] = PLACES[case['seed'][-1] % len(PLACES)]
    else:
        spec = dict(case['spec'])
        spec.setdefault('expect', 'splice')
        spec.setdefault('dirs', [])
        as_bytes = lambda v: v.encode('latin-1') if isinstance(v, str) else v    # hand-written files may use text
        spec['main_code'] = as_bytes(spec['main_code'])
        spec['targets'] = [dict(t, **{f: as_bytes(t[f]) for f in ('data', 'code') if f in t})
                           for t in spec.get('targets', [])]
    check_spec(spec, {k: v for k, v in case.items() if k != 'files'})


REQUIRED = ('includes_0', 'includes_1', 'includes_2', 'includes_3', 'includes_4', 'kind_lua', 'kind_p8',
            'kind_p8png', 'p8_and_png_twins_both_included', 'p8png_compressed_no_final_newline', 'tab_empty', 'tab_selector', 'tab_beyond_last', 'tab_last', 'adjacent_includes', 'include_first_line',
            'include_last_line', 'include_middle', 'target_no_final_newline',
            'line_follows_target_without_final_newline', 'nested_include_verbatim', 'subdir', 'same_target_twice',
            'include_line_padded', 'name_with_dash_dot_digit', 'crlf_target', 'missing_target', 'place_plain',
            'place_carts_root', 'place_carts_sub', 'tab_14_or_later_of_many', 'p8_target_without_lua_section',
            'cart_includes_itself', 'include_lookalike_line', 'included_cart_has_include_line_inside_a_block',
            'tab_selected_from_cart_with_token_across_tabs')


def vacuity(total, tier):
    msgs = []
    avoided = any(k.startswith('lua_target_without_final_newline') for k in total.excluded)
    for lab in REQUIRED:
        if avoided and lab in ('target_no_final_newline', 'line_follows_target_without_final_newline'):
            continue
        if total.classes.get(lab, 0) < 1:
            msgs.append('class %s never seen' % lab)
    return msgs
