"""C16 - on-disk encodings match the PICO-8 cart formats, not merely each other."""
import glob
import io
import os

from hypothesis import strategies as st

from vlib.runner import Violation, show, REPO
from vlib.choices import expand, Choices
from vlib import cartgen, reffmt, refpng

PROPERTY = 'C16'
LEVEL = 'exploration'
RULE = ('differential against reference codecs written from the PICO-8 format descriptions (vlib/reffmt, '
        'vlib/refpng): exhaustive parts = all 65,536 sfx note words in note slots, all 256 values at each of '
        'the 64 byte columns of a gfx row, all 256 values in each of the 4 music byte positions, all 256 '
        'values through the PNG 2-bit channel split; generated parts = whole random regions/carts through '
        'the .p8 and .p8.png formatters in both directions (picotool writes / reference reads and reference '
        'writes / picotool reads); plus the PICO-8-written carts in tests/testdata (.p8 and .p8.png twins). '
        'Non-trivial = region content with >= 16 distinct byte values (or one exhaustive word/value case); '
        'distinct by content hash.'
        ' Carts of format png_then_p8 / p8_then_png save ONE cart object in both formats in sequence (first format once more at the end): both files must hold the cart by the format descriptions and the cart object must be unchanged. Reference-written .p8.png inputs and label files come in image-tool flavours (interlaced, filtered, split IDAT, ancillary chunks).'
        ' A quarter of the reference-written .p8 files have no line terminator after their last row.'
        ' After loading, map.get_cell is compared with cart memory on 24 cells of both map halves (rows 32-63 live in sprite memory); reference .p8 files may keep the header line of a section that has no rows.'
        ' Versions include 0; labels include the all-black one; elided files may end with the last sfx row.'
        ' Half of the elided reference .p8 files also omit their trailing un-edited sfx patterns (no notes, speed 16), as PICO-8 saves them: the reader must supply the defaults whatever carts the process loaded before (p8_sfx_rows_omitted).')
ASSUMPTIONS = ['reference codecs follow the published P8FileFormat / P8PNGFileFormat / memory-map descriptions; '
               'they agree with picotool on the PICO-8-written carts in tests/testdata',
               'the .p8 music line cannot carry bit 7 of the 4th channel byte (stated in the property set, C03)']
LEVEL_TEXT = ('Exploration with exhaustive cores: every sfx note word, every byte value per gfx column, per '
              'music position and through the stego split is compared with an independent encoder and '
              'decoder; whole carts are exchanged between picotool and the reference implementation in both '
              'directions and formats.')
LEVEL_NOTE = 'Trusted: vlib/reffmt.py and vlib/refpng.py (independent of picotool and pypng), zlib.'
TECHNIQUE = 'exhaustive + generated differential testing of each section codec and the PNG stego layer against reference codecs'


def _cmp_lines(name, got, want, case):
    got = [bytes(x) for x in got]
    if got != want:
        for i, (a, b) in enumerate(zip(got, want)):
            if a != b:
                raise Violation('%s line %d: picotool wrote %s, format prescribes %s'
                                % (name, i, show(a, 90), show(b, 90)), case, name + '-encode')
        raise Violation('%s: picotool wrote %d lines, format prescribes %d' % (name, len(got), len(want)),
                        case, name + '-encode')


def check_region(name, data, case=None):
    """picotool's text codec for one region against the reference, both directions."""
    from pico8.gfx.gfx import Gfx
    from pico8.gff.gff import Gff
    from pico8.map.map import Map
    from pico8.sfx.sfx import Sfx
    from pico8.music.music import Music
    cls, enc, masked = {
        'gfx': (Gfx, reffmt.enc_gfx, False),
        'label': (Gfx, reffmt.enc_gfx, False),
        'gff': (Gff, lambda d: reffmt.enc_plain(d, 128), False),
        'map': (Map, lambda d: reffmt.enc_plain(d, 128), False),
        'sfx': (Sfx, reffmt.enc_sfx, False),
        'music': (Music, reffmt.enc_music, True),
    }[name]
    case = case or {'region': name, 'data': bytes(data)}
    want = enc(data)
    try:
        obj = cls.from_bytes(bytearray(data), version=8)
        got = list(obj.to_lines())
    except Exception as e:
        raise Violation('%s.to_lines raised %r' % (name, e), case, name + '-encode')
    _cmp_lines(name, got, want, case)
    try:
        back = bytes(cls.from_lines(want, version=8)._data)
    except Exception as e:
        raise Violation('%s.from_lines raised %r on reference text' % (name, e), case, name + '-decode')
    expect = reffmt.music_mask(data) if masked else bytes(data)
    if back != expect:
        diff = [i for i in range(min(len(back), len(expect))) if back[i] != expect[i]]
        raise Violation('%s.from_lines of the prescribed text gives different bytes (len %d vs %d, first diff '
                        'at %s)' % (name, len(back), len(expect), diff[:1]), case, name + '-decode')
    if bytes(obj.to_bytes()) != bytes(data):
        raise Violation('%s.to_bytes differs from the bytes given' % name, case, name + '-bytes')


# ---------------------------------------------------------------- exhaustive parts

def part_sfx_words(ctx):
    """All 65,536 note words, 2,048 per Sfx object, at varying note slots."""
    per = 65536 // ctx.nshards
    lo = ctx.shard * per
    hi = 65536 if ctx.shard == ctx.nshards - 1 else lo + per
    w = lo
    while w < hi:
        data = bytearray(4352)
        hdr = expand(b'h%d' % w, 256)
        for s in range(64):
            data[s * 68 + 64:s * 68 + 68] = hdr[s * 4:s * 4 + 4]
            for n in range(32):
                word = (w + s * 32 + n) & 0xffff
                # rotate the slot so that every word meets different slots across shards/seeds
                slot = (n + w // 2048) % 32
                data[s * 68 + 2 * slot] = word & 255
                data[s * 68 + 2 * slot + 1] = word >> 8
        check_region('sfx', bytes(data), {'region': 'sfx', 'data': bytes(data), 'first_word': w})
        ctx.stats.case(b'sfxw%d' % w, True, {'sfx_words': '0x%04x..0x%04x' % (w, w + 2047)}, ['sfx_word_block'])
        ctx.stats.count('sfx_words', 2048)
        w += 2048
    ctx.stats.extra['exhaustive'] = True


def part_small_exhaustive(ctx):
    # gfx: value v at column c for all 256 x 64
    for k in range(2):
        data = bytearray(8192)
        for r in range(128):
            for c in range(64):
                data[r * 64 + c] = (r + 128 * k + c * 7) & 255   # every (c, value) pair over r, k
        check_region('gfx', bytes(data))
        ctx.stats.case(b'gfxcol%d' % k, True, {'gfx_columns_block': k}, ['gfx_col_block'])
    seen = set()
    for k in range(2):
        for r in range(128):
            for c in range(64):
                seen.add((c, (r + 128 * k + c * 7) & 255))
    if len(seen) != 256 * 64:
        raise RuntimeError('gfx column enumeration incomplete: %d' % len(seen))
    ctx.stats.count('gfx_col_value_pairs', len(seen))
    # music: all 256 values at each of the 4 positions
    for p in range(4):
        for base in range(4):
            data = bytearray(expand(b'm%d%d' % (p, base), 256))
            for i in range(64):
                data[4 * i + p] = base * 64 + i
            check_region('music', bytes(data))
            ctx.stats.case(b'music%d%d' % (p, base), True, None, ['music_block'])
    ctx.stats.count('music_pos_value_pairs', 4 * 256)
    # all flag combinations x silent/non-silent channels
    data = bytearray()
    for flags in range(8):
        for chans in ((0x41, 0x42, 0x43, 0x44), (0, 1, 2, 3), (0x3f, 0x40, 0x7f, 0x00), (5, 0x42, 6, 0x44),
                      (0x7f, 0x7f, 0x7f, 0x7f), (1, 1, 1, 1), (0, 0, 0, 0), (0x20, 0x10, 0x08, 0x04)):
            data += bytes((chans[0] | ((flags & 1) << 7), chans[1] | (((flags >> 1) & 1) << 7),
                           chans[2] | (((flags >> 2) & 1) << 7), chans[3]))
    check_region('music', bytes(data))
    ctx.stats.case(b'musicflags', True, {'music_flag_combinations': 8}, ['music_flags'])
    # gff / map: every value at every column parity
    ramp = bytes(range(256))
    check_region('gff', ramp)
    check_region('gff', bytes(reversed(ramp)))
    check_region('map', (ramp * 16))
    check_region('map', bytes((i * 3 + (i >> 8)) & 255 for i in range(4096)))
    ctx.stats.case(b'plain', True, None, ['plain_ramp'])
    # stego split: all 256 values at scattered positions, arbitrary upper bits
    stego_values()
    ctx.stats.case(b'stego', True, {'stego': 'all 256 byte values at scattered pixel positions'}, ['stego_values'])
    ctx.stats.extra['exhaustive'] = True


def stego_values(seed=b'stego'):
    from pico8.game.formatter import p8png
    w, h = 160, 205
    case = {'stego_seed': bytes(seed)}
    base = expand(seed, w * h * 4)
    rows = [base[y * w * 4:(y + 1) * w * 4] for y in range(h)]
    cart = bytearray(expand(seed + b'c', 0x8001))
    pos = [i * 127 % 0x8001 for i in range(256)]
    for v, p in enumerate(pos):
        cart[p] = v
    attrs = {'planes': 4, 'alpha': True, 'bitdepth': 8, 'greyscale': False}
    try:
        new_rows = p8png.get_pngdata_from_picodata(bytes(cart), [bytearray(r) for r in rows], attrs)
    except Exception as e:
        raise Violation('get_pngdata_from_picodata raised %r' % e, case, 'stego-encode')
    want = reffmt.stego_embed(rows, bytes(cart))
    for y in range(h):
        if bytes(new_rows[y]) != want[y]:
            x = [i for i in range(w * 4) if new_rows[y][i] != want[y][i]][0]
            raise Violation('stego encode: row %d byte %d (pixel %d channel %d) is 0x%02x, format prescribes '
                            '0x%02x' % (y, x, x // 4, x % 4, new_rows[y][x], want[y][x]), case, 'stego-encode')
    try:
        got = p8png.get_picodata_from_pngdata(w, h, [bytearray(r) for r in want], attrs)
    except Exception as e:
        raise Violation('get_picodata_from_pngdata raised %r' % e, case, 'stego-decode')
    ref = reffmt.stego_extract(want)
    if bytes(got)[:0x8001] != ref[:0x8001] or ref[:0x8001] != bytes(cart):
        i = [i for i in range(0x8001) if got[i] != cart[i]][:1]
        raise Violation('stego decode differs from the format at cart byte %s' % i, case, 'stego-decode')


# ---------------------------------------------------------------- whole carts, both directions

def compressible_code(ch):
    """Code that picotool stores compressed (the raw path is C04's business)."""
    n = 2 + ch.below(6)
    body = b'x=%d y="%s" ' % (ch.below(1000), bytes(97 + ch.below(26) for _ in range(3)))
    return (body * (6 + n)) + b'\n'


def check_shared_rows(g, mem, case, what):
    """The loaded cart's map rows 32-63 ARE the bytes of sprite memory 0x1000-0x1fff (and rows 0-31 the map region):
    asked through the Map accessor, the way tools and the .p8.png twin see them."""
    for k in range(24):
        x, y = (k * 37 + 5) % 128, (k * 11 + 3) % 64
        want = mem[0x1000 + (y - 32) * 128 + x] if y >= 32 else mem[0x2000 + y * 128 + x]
        try:
            got = g.map.get_cell(x, y)
        except Exception as e:
            raise Violation('%s: map.get_cell(%d, %d) raised %r' % (what, x, y, e), case, 'shared-rows')
        if got != want:
            raise Violation('%s: map cell (%d, %d) reads 0x%02x, cart memory has 0x%02x there (rows 32-63 live in sprite '
                            'memory 0x1000-0x1fff)' % (what, x, y, got, want), case, 'shared-rows')


def whole_cart(seed, fmt):
    from pico8.game.formatter.p8 import P8Formatter
    from pico8.game.formatter.p8png import P8PNGFormatter, EMPTY_LABEL_FNAME
    from vlib import prelude
    prelude.files()
    ch = Choices(seed)
    mem, modes = cartgen.memory_from_choices(ch)
    if seed[-1] % 3 == 0:
        mem = cartgen.with_untouched_sfx(mem, seed[-2])     # untouched-looking sfx rows (speed 16, no notes)
        modes = modes + ('untouched_sfx',)
    version = 1 + ch.below(255)
    if seed[-10] % 8 == 0:
        version = 0          # (version 0: code is never stored compressed, the byte at 0x8000 is 0)
    code = compressible_code(ch)
    has_label = ch.chance(128)
    label = expand(b'l' + seed, 8192) if has_label else None
    if has_label and seed[-11] % 4 == 0:
        label = bytes(8192)          # a label captured from a black screen: 128 rows of '0'
    case = {'cart_seed': bytes(seed), 'fmt': fmt}
    if fmt == 'p8':
        g = cartgen.make_game(mem, version=version, code=code, label=label)
        buf = io.BytesIO()
        try:
            P8Formatter.to_file(g, buf)
        except Exception as e:
            raise Violation('.p8 write raised %r' % e, case, 'p8-write')
        try:
            r = reffmt.read_p8(buf.getvalue())
        except Exception as e:
            raise Violation('.p8 written by picotool is not readable by the format description: %r' % e,
                            case, 'p8-write')
        exp = {'gfx': mem[0:0x2000], 'map': mem[0x2000:0x3000], 'gff': mem[0x3000:0x3100],
               'music': reffmt.music_mask(mem[0x3100:0x3200]), 'sfx': mem[0x3200:0x4300],
               'label': label, 'code': code, 'version': version}
        for k, v in exp.items():
            if r[k] != v:
                raise Violation('.p8 written by picotool: section %s read by the reference reader differs '
                                'from the cart' % k, case, 'p8-write-' + k)
        # other direction; half of the time in the newer PICO-8 style that omits trailing empty rows (the cart's
        # memory then has empty tails in gfx/gff/map/music so that rows really get omitted)
        elide = ch.chance(128)
        elide_sfx = False
        if elide:
            m2 = bytearray(mem)
            cut = [64 * ch.below(100), 128 * ch.below(2), 128 * ch.below(30), 4 * ch.below(60)]
            if seed[-12] % 3 == 0:
                cut[3] = 0           # no music at all: the file then ends with the last sfx row
            m2[0x0000 + cut[0]:0x2000] = bytes(0x2000 - cut[0])
            m2[0x3000 + cut[1]:0x3100] = bytes(0x100 - cut[1])
            m2[0x2000 + cut[2]:0x3000] = bytes(0x1000 - cut[2])
            m2[0x3100 + cut[3]:0x3200] = b'\x41\x42\x43\x44' * ((0x100 - cut[3]) // 4)
            if seed[-13] % 2 == 0:
                # trailing sfx patterns nobody edited are not written either: a reader starts from PICO-8's defaults
                # (speed 16), whatever carts the process has read before
                cut_s = 1 + seed[-14] % 64
                m2[0x3200 + 68 * cut_s:0x4300] = (bytes(64) + b'\x00\x10\x00\x00') * (64 - cut_s)
                elide_sfx = True
            mem_r = bytes(m2)
        else:
            mem_r = mem
        exp = {'gfx': mem_r[0:0x2000], 'map': mem_r[0x2000:0x3000], 'gff': mem_r[0x3000:0x3100],
               'music': reffmt.music_mask(mem_r[0x3100:0x3200]), 'sfx': mem_r[0x3200:0x4300],
               'label': label, 'code': code, 'version': version}
        text = reffmt.write_p8(version, code, mem_r, label, elide=('headers' if (elide and seed[-9] % 2) else elide),
                                elide_sfx=elide_sfx)
        unterminated = seed[-5] % 4 == 0
        if unterminated:
            # the last row of the last section without a line terminator (editors strip trailing blank lines and the
            # final newline), or with the file's closing blank line removed only
            text = text.rstrip(b'\n') if seed[-6] % 2 == 0 else text[:-1]
        case = dict(case, elided=elide, sfx_rows_omitted=elide_sfx, last_line_unterminated=unterminated)
        if elide_sfx:
            modes = modes + ('sfx_rows_omitted',)
        try:
            g2 = P8Formatter.from_file(io.BytesIO(text))
        except Exception as e:
            raise Violation('picotool cannot read a reference-written .p8: %r' % e, case, 'p8-read')
        got = {'gfx': bytes(g2.gfx._data), 'map': bytes(g2.map._data), 'gff': bytes(g2.gff._data),
               'music': bytes(g2.music._data), 'sfx': bytes(g2.sfx._data),
               'label': bytes(g2.label._data) if g2.label is not None else None,
               'code': b''.join(g2.lua.to_lines()), 'version': g2.version}
        if all(len(got[k]) == len(exp[k]) for k in ('gfx', 'map')):
            check_shared_rows(g2, mem_r, case, 'cart loaded from a reference-written .p8 (label %s)' % ('present' if label else 'absent'))
        for k, v in exp.items():
            if got[k] != v:
                raise Violation('picotool reading a reference-written .p8%s: section %s differs (%s bytes, expected %s)'
                                % (' with trailing empty rows omitted' if elide else '', k,
                                   len(got[k]) if got[k] is not None else None, len(v) if v is not None else None),
                                case, 'p8-read-' + k)
    else:
        g = cartgen.make_game(mem, version=version, code=code)
        pix = expand(b'p' + seed, 160 * 205 * 4)
        rows = [pix[y * 640:(y + 1) * 640] for y in range(205)]
        # reference writes, picotool reads
        kind_area = bytearray(code)  # raw text, NUL padded by write_p8png
        png_kw, flavour = reffmt.png_flavour(seed[-8:-4])
        case = dict(case, png_flavour=flavour)
        png_bytes = reffmt.write_p8png(rows, mem, kind_area, version, png_kw=png_kw)
        try:
            g2 = P8PNGFormatter.from_file(io.BytesIO(png_bytes))
        except Exception as e:
            raise Violation('picotool cannot read a reference-written .p8.png: %r' % e, case, 'png-read')
        if cartgen.flat(g2) != mem:
            bad = [n for (n, lo, hi), d in zip(cartgen.REGIONS, cartgen.region_datas(g2)) if d != mem[lo:hi]]
            raise Violation('picotool reading a reference-written .p8.png: regions %s differ' % bad,
                            case, 'png-read-regions')
        check_shared_rows(g2, mem, case, 'cart loaded from a reference-written .p8.png')
        if g2.version != version:
            raise Violation('picotool read version %r from a .p8.png carrying %d' % (g2.version, version),
                            case, 'png-read-version')
        got_code = b''.join(g2.lua.to_lines())
        if got_code.rstrip(b'\n') != code.rstrip(b'\n'):
            raise Violation('picotool read different code from a reference-written .p8.png', case, 'png-read-code')
        # picotool writes (label = a file with these pixels), reference reads
        import tempfile
        with tempfile.TemporaryDirectory(prefix='c16_') as td:
            lab = os.path.join(td, 'label.png')
            with open(lab, 'wb') as fh:
                fh.write(refpng.encode(160, 205, rows, **png_kw))
            buf = io.BytesIO()
            try:
                P8PNGFormatter.to_file(g, buf, label_fname=lab)
            except Exception as e:
                raise Violation('.p8.png write raised %r' % e, case, 'png-write')
        try:
            r = reffmt.read_p8png(buf.getvalue())
        except Exception as e:
            raise Violation('.p8.png written by picotool is not decodable by the format description: %r' % e,
                            case, 'png-write')
        if (r['width'], r['height'], r['planes']) != (160, 205, 4):
            raise Violation('.p8.png written as %dx%d with %d planes' % (r['width'], r['height'], r['planes']),
                            case, 'png-write-shape')
        if r['mem'] != mem:
            bad = [n for (n, lo, hi) in cartgen.REGIONS if r['mem'][lo:hi] != mem[lo:hi]]
            raise Violation('.p8.png written by picotool: regions %s sit at the wrong place or differ' % bad,
                            case, 'png-write-regions')
        if r['version'] != version:
            raise Violation('.p8.png written by picotool carries version byte %d at 0x8000, cart has %d'
                            % (r['version'], version), case, 'png-write-version')
        if reffmt.strip_shim(r['code']).rstrip(b'\n') != code.rstrip(b'\n'):
            raise Violation('.p8.png written by picotool: code area decodes (by the format description, %s) '
                            'to different text' % r['code_kind'], case, 'png-write-code')
        for y in range(205):
            a, b = r['rows'][y], rows[y]
            if any((a[i] ^ b[i]) & 0xfc for i in range(640)):
                raise Violation('.p8.png written by picotool changes label pixel bits above the low two in row %d'
                                % y, case, 'png-write-label')
    return modes


def whole_cart_both(seed, fmt):
    """One Game object saved in both formats, one after the other (the order is part of the case): both files must
    hold the cart's memory by the format descriptions, i.e. the twins load to identical contents."""
    import tempfile
    from pico8.game.formatter.p8 import P8Formatter
    from pico8.game.formatter.p8png import P8PNGFormatter
    ch = Choices(seed)
    mem, modes = cartgen.memory_from_choices(ch)
    version = 1 + ch.below(255)
    code = compressible_code(ch)
    label = expand(b'l' + seed, 8192) if ch.chance(128) else None
    case = {'cart_seed': bytes(seed), 'fmt': fmt}
    g = cartgen.make_game(mem, version=version, code=code, label=label)
    pix = expand(b'p' + seed, 160 * 205 * 4)
    rows = [pix[y * 640:(y + 1) * 640] for y in range(205)]
    out = {}
    with tempfile.TemporaryDirectory(prefix='c16b_') as td:
        lab = os.path.join(td, 'label.png')
        with open(lab, 'wb') as fh:
            fh.write(refpng.encode(160, 205, rows))
        order = ('png', 'p8') if fmt == 'png_then_p8' else ('p8', 'png')
        for k, f in enumerate(order + order[:1]):         # the first format is written once more at the end
            buf = io.BytesIO()
            try:
                if f == 'p8':
                    P8Formatter.to_file(g, buf)
                else:
                    P8PNGFormatter.to_file(g, buf, label_fname=lab)
            except Exception as e:
                raise Violation('write #%d (%s) of one cart saved as %s raised %r' % (k + 1, f, '+'.join(order), e),
                                case, 'both-write')
            out[(k, f)] = buf.getvalue()
            if cartgen.flat(g) != mem or [len(d) for d in cartgen.region_datas(g)] != [hi - lo for _n, lo, hi in cartgen.REGIONS]:
                raise Violation('saving the cart as %s changed the memory of the cart object (region sizes %r)'
                                % (f, [len(d) for d in cartgen.region_datas(g)]), case, 'both-cart-changed')
    want_p8 = mem[:0x3100] + reffmt.music_mask(mem[0x3100:0x3200]) + mem[0x3200:]
    for (k, f), data in sorted(out.items()):
        what = 'write #%d (%s) of one cart saved as %s' % (k + 1, f, '+'.join(order))
        try:
            if f == 'p8':
                r = reffmt.read_p8(data)
                got = r['gfx'] + r['map'] + r['gff'] + r['music'] + r['sfx']
                want = want_p8
            else:
                r = reffmt.read_p8png(data)
                got, want = r['mem'], mem
        except Exception as e:
            raise Violation('%s is not readable by the format description: %r' % (what, e), case, 'both-format')
        if got != want:
            bad = [n for (n, lo, hi) in cartgen.REGIONS if got[lo:hi] != want[lo:hi]] or ['sizes']
            raise Violation('%s: regions %s differ from the cart' % (what, bad), case, 'both-regions')
        if r['version'] != version:
            raise Violation('%s: version %r, cart has %d' % (what, r['version'], version), case, 'both-version')
        if f == 'p8' and r['label'] != label:
            raise Violation('%s: label section differs from the cart\'s label' % what, case, 'both-label')
    if out[(0, order[0])] != out[(2, order[0])]:
        raise Violation('saving the cart as %s again after saving it as %s gives a different file'
                        % (order[0], order[1]), case, 'both-rewrite')
    return modes


def part_carts(ctx):
    def body(v):
        seed, fmt = v
        modes = whole_cart(seed, fmt) if fmt in ('p8', 'png') else whole_cart_both(seed, fmt)
        if fmt == 'p8' and seed[-5] % 4 == 0:
            ctx.stats.count('p8_last_line_unterminated')
        if 'sfx_rows_omitted' in modes:
            ctx.stats.count('p8_sfx_rows_omitted')
        if fmt == 'png':
            ctx.stats.count('png_flavour_' + ('plain' if reffmt.png_flavour(seed[-8:-4])[1] == 'plain' else 'other'))
        ctx.stats.case(seed + fmt.encode(), sum(1 for m in modes if m in ('random', 'ramp')) >= 1,
                       {'cart_seed': show(seed, 40), 'fmt': fmt, 'region_modes': modes}, ['cart_' + fmt])
    ctx.hyp('carts', st.tuples(st.binary(min_size=40, max_size=40), st.sampled_from(['p8', 'png', 'png_then_p8', 'p8_then_png'])), body,
            max_examples=90 if ctx.quick else 700)


def part_regions(ctx):
    names = ['gfx', 'gff', 'map', 'sfx', 'music', 'label']
    sizes = {'gfx': 8192, 'label': 8192, 'gff': 256, 'map': 4096, 'sfx': 4352, 'music': 256}

    def body(v):
        name, seed = v
        mode, data = cartgen.region_bytes(Choices(seed), sizes[name])
        if name == 'sfx' and seed[-1] % 3 == 0:
            data = cartgen.with_untouched_sfx(bytes(0x3200) + data, seed[-2])[0x3200:]
            mode += '+untouched_sfx'
        check_region(name, data)
        ctx.stats.case(name.encode() + seed, cartgen.distinct_values(data) >= 16,
                       {'region': name, 'mode': mode, 'head': show(data[:24])}, ['region_' + name])
    ctx.hyp('regions', st.tuples(st.sampled_from(names), st.binary(min_size=12, max_size=12)), body,
            max_examples=150 if ctx.quick else 2500)


def testdata_carts():
    """PICO-8-written reference carts: picotool and the reference readers agree; twins are identical."""
    from pico8.game import file as pfile
    td = os.path.join(REPO, 'tests', 'testdata')
    n = 0
    loaded = {}
    for f in sorted(glob.glob(os.path.join(td, '*.p8')) + glob.glob(os.path.join(td, '*.p8.png'))):
        case = {'testdata': os.path.basename(f)}
        data = open(f, 'rb').read()
        try:
            g = pfile.from_file(f)
        except Exception as e:
            raise Violation('picotool cannot load %s: %r' % (os.path.basename(f), e), case, 'testdata')
        mem = cartgen.flat(g)
        if f.endswith('.p8'):
            r = reffmt.read_p8(data)
            ref_mem = r['gfx'] + r['map'] + r['gff'] + r['music'] + r['sfx']
        else:
            r = reffmt.read_p8png(data)
            ref_mem = r['mem']
        if ref_mem != mem:
            bad = [nm for (nm, lo, hi) in cartgen.REGIONS if ref_mem[lo:hi] != mem[lo:hi]]
            raise Violation('%s: picotool and the reference reader disagree on %s'
                            % (os.path.basename(f), bad), case, 'testdata')
        if r['version'] != g.version:
            raise Violation('%s: version %r vs %r' % (os.path.basename(f), g.version, r['version']), case, 'testdata')
        loaded[os.path.basename(f)] = (mem, b''.join(g.lua.to_lines()))
        n += 1
    for name, (mem, code) in loaded.items():
        if name.endswith('.p8') and name + '.png' in loaded:
            mem2, code2 = loaded[name + '.png']
            m1 = mem[:0x3100] + reffmt.music_mask(mem[0x3100:0x3200]) + mem[0x3200:]
            m2 = mem2[:0x3100] + reffmt.music_mask(mem2[0x3100:0x3200]) + mem2[0x3200:]
            if m1 != m2:
                bad = [nm for (nm, lo, hi) in cartgen.REGIONS if m1[lo:hi] != m2[lo:hi]]
                raise Violation('twin carts %s / .png load to different %s' % (name, bad),
                                {'testdata': name}, 'twins')
            if code.rstrip(b'\n') != code2.rstrip(b'\n'):
                raise Violation('twin carts %s / .png load to different code' % name, {'testdata': name}, 'twins')
            n += 1
    return n


def part_testdata(ctx):
    n = testdata_carts()
    ctx.stats.evaluations += n
    ctx.stats.count('testdata_files_and_twins', n)


def parts(tier):
    if tier == 'quick':
        return [('sfx_words', part_sfx_words, 8), ('small', part_small_exhaustive, 1),
                ('regions', part_regions, 2), ('carts', part_carts, 3), ('testdata', part_testdata, 1)]
    return [('sfx_words', part_sfx_words, 8), ('small', part_small_exhaustive, 1),
            ('regions', part_regions, 3), ('carts', part_carts, 3), ('testdata', part_testdata, 1)]


def replay(case):
    if 'region' in case:
        check_region(case['region'], case['data'])
    elif 'cart_seed' in case:
        (whole_cart if case['fmt'] in ('p8', 'png') else whole_cart_both)(case['cart_seed'], case['fmt'])
    elif 'stego_seed' in case:
        stego_values(case['stego_seed'])
    else:
        testdata_carts()


def vacuity(total, tier):
    msgs = []
    if total.classes.get('sfx_words', 0) != 65536:
        msgs.append('sfx note words enumerated: %d' % total.classes.get('sfx_words', 0))
    for lab in ('cart_p8', 'cart_png', 'cart_png_then_p8', 'cart_p8_then_png', 'stego_values', 'music_flags',
                'p8_sfx_rows_omitted'):
        if not total.classes.get(lab):
            msgs.append('class %s never exercised' % lab)
    return msgs
