"""C15 - P8SCII <-> Unicode text conversion is a bijection on all byte strings."""
import io

from hypothesis import strategies as st

from vlib.runner import Violation, show

PROPERTY = 'C15'
LEVEL = 'exploration'
RULE = ('(the text of every pair and long string must also be the concatenation of its characters\' own spellings) part "pairs": all 256 single bytes and all 65,536 byte pairs through p8scii_to_unicode -> '
        'UTF-8 encode/decode -> unicode_to_p8scii (exhaustive: true for that space), plus table '
        'invariants (256 entries, index == code, spellings distinct, prefix-free); part "long": '
        'Hypothesis byte strings up to 4096 bytes incl. glyph-dense ones; part "file": one-line carts '
        'written to .p8 and read back. Non-trivial = the string contains a byte >= 0x80 or < 0x20 '
        '(a byte whose spelling is not its ASCII self); distinct by the byte string.'
        ' Part "file_big": > 64 KiB of UTF-8 (24k characters of glyph comment lines at seven alignments; one 22k-glyph line with escapes) through the .p8 writer and reader, and every line of the form __X__ with X a byte >= 0x80 or a near-miss of a section header inside a long string.'
        ' Before every conversion a text that is NOT P8SCII (a glyph without its variation selector, an accented letter) is handed to unicode_to_p8scii; the UTF-8 encodings of all glyphs, taken as P8SCII bytes, are written to a .p8 and read back directly and through `#include lib.p8`.'
        ' Section names and #include directly after a bare CR (still the middle of a .p8 line) inside long strings.')
ASSUMPTIONS = ['the 256 spellings in P8SCII_CHARSET are taken as data; whether they are the glyphs PICO-8 '
               'itself writes cannot be checked here (no PICO-8 binary)']
LEVEL_TEXT = ('Exploration with an exhaustive core: every byte and every byte pair is round-tripped, which '
              'together with the checked prefix-freeness of the table covers all strings; long random '
              'strings and real .p8 write/read confirm the converters and their use by the file format.')
LEVEL_NOTE = 'Trusted: Python str/UTF-8 codec. The table contents are data, only their bijectivity is checked.'
TECHNIQUE = 'exhaustive enumeration (256 + 65,536 pairs) + Hypothesis long strings, round-trip oracle and table invariants'


def _mods():
    from pico8.lua import lua
    return lua


NOT_P8SCII_TEXT = ('\u2b07 x', '\u2b05', '\U0001f17e', 'caf\u00e9', '\ufe0f', '\u2b06\u2b07', '\u27a1 go', 'x\u0301')
_bad_n = [0]


def roundtrip(bs, case=None):
    lua = _mods()
    case = case or {'bytes': bytes(bs)}
    # text that is NOT a spelling of P8SCII (a glyph without its variation selector, an accented letter) first:
    # whatever picotool does with it must not change how proper text converts afterwards
    try:
        lua.unicode_to_p8scii(NOT_P8SCII_TEXT[_bad_n[0] % len(NOT_P8SCII_TEXT)])
    except Exception:
        pass
    _bad_n[0] += 1
    try:
        u = lua.p8scii_to_unicode(bs)
    except Exception as e:
        raise Violation('p8scii_to_unicode raised %r on %s' % (e, show(bs)), case, 'to_unicode')
    if not isinstance(u, str):
        raise Violation('p8scii_to_unicode returned %r' % type(u), case, 'to_unicode')
    try:
        enc = u.encode('utf-8')
        u2 = enc.decode('utf-8')
    except Exception as e:
        raise Violation('text for %s is not UTF-8 encodable: %r' % (show(bs), e), case, 'utf8')
    try:
        back = lua.unicode_to_p8scii(u2)
    except Exception as e:
        raise Violation('unicode_to_p8scii raised %r on the text of %s' % (e, show(bs)), case, 'to_p8scii')
    if bytes(back) != bytes(bs):
        raise Violation('round trip of %s gives %s' % (show(bs), show(back)), case, 'roundtrip')
    return u


def table_invariants():
    lua = _mods()
    case = {'table': True}
    cs = lua.P8SCII_CHARSET
    if len(cs) != 256:
        raise Violation('P8SCII_CHARSET has %d entries' % len(cs), case, 'table')
    spell = []
    for i, c in enumerate(cs):
        if c.p8scii != i:
            raise Violation('table entry %d carries code %r' % (i, c.p8scii), case, 'table')
        if not isinstance(c.p8string, str) or len(c.p8string) == 0:
            raise Violation('entry %d has an empty spelling' % i, case, 'table')
        spell.append(c.p8string)
    if len(set(spell)) != 256:
        seen = {}
        for i, s in enumerate(spell):
            if s in seen:
                raise Violation('bytes %d and %d share the spelling %r' % (seen[s], i, s), case, 'distinct')
            seen[s] = i
    for i, a in enumerate(spell):
        for j, b in enumerate(spell):
            if i != j and b.startswith(a):
                raise Violation('spelling of byte %d (%r) is a prefix of byte %d (%r)' % (i, a, j, b),
                                case, 'prefix-free')
    for i in range(128):
        if i >= 32 and i < 127 and spell[i] != chr(i):
            # printable ASCII is spelled as itself in .p8 files: code text must stay readable
            raise Violation('printable ASCII %d is spelled %r' % (i, spell[i]), case, 'ascii')


def nontriv(bs):
    return any(b >= 0x80 or b < 0x20 for b in bs)


def part_pairs(ctx):
    table_invariants()
    ctx.stats.extra['exhaustive'] = True
    lo = 0
    hi = 256
    if ctx.nshards > 1:
        per = 256 // ctx.nshards
        lo, hi = ctx.shard * per, (ctx.shard + 1) * per if ctx.shard < ctx.nshards - 1 else 256
    if ctx.shard == 0:
        for a in range(256):
            bs = bytes((a,))
            roundtrip(bs)
            ctx.stats.case(bs, nontriv(bs), None, ['single'])
    # "each of the 256 characters has a ... spelling": the text of a string is the concatenation of its characters'
    # spellings, whatever stands next to them
    single = [roundtrip(bytes((a,))) for a in range(256)]
    n = 0
    for a in range(lo, hi):
        for b in range(256):
            bs = bytes((a, b))
            u = roundtrip(bs)
            if u != single[a] + single[b]:
                raise Violation('the text of %s is %r, but its two characters alone are spelled %r and %r'
                                % (show(bs), u, single[a], single[b]), {'bytes': bs}, 'spelling-depends-on-context')
            n += 1
            if nontriv(bs):
                ctx.stats.nontrivial.add(bs)
    ctx.stats.evaluations += n
    ctx.stats.count('pair', n)
    ctx.stats.samples.append({'pair': show(bytes((lo, 0x8b))), 'text': roundtrip(bytes((lo, 0x8b)))})


def part_long(ctx):
    glyph = st.integers(0x80, 0xff)
    ctrl = st.integers(0, 0x1f)
    anyb = st.integers(0, 255)
    strat = st.one_of(
        st.binary(max_size=4096),
        st.lists(st.one_of(glyph, glyph, ctrl, anyb), max_size=600).map(bytes),
        st.lists(st.sampled_from([0x8e, 0x97, 0x94, 0x83, 0x8b, 0x91, 0x7f, 0x80, 0xff, 0x0a, 0x0d, 0x00]),
                 max_size=200).map(bytes))

    single = [roundtrip(bytes((a,))) for a in range(256)]

    def body(bs):
        u = roundtrip(bs)
        if u != ''.join(single[b] for b in bs):
            raise Violation('the text of %s is not the concatenation of its characters\' spellings' % show(bs, 80),
                            {'bytes': bytes(bs)}, 'spelling-depends-on-context')
        ctx.stats.case(bs, nontriv(bs), {'bytes': show(bs, 60), 'text': u[:40]},
                       ['long>=256'] if len(bs) >= 256 else [])
    ctx.hyp('long', strat, body, max_examples=1500 if ctx.quick else 20000)


def file_roundtrip(line):
    """One-line cart through an actual .p8 write and read."""
    from vlib import cartgen
    from pico8.game.formatter.p8 import P8Formatter
    case = {'line': bytes(line)}
    g = cartgen.make_game(bytes(0x4300), code=b'-- ' + line + b'\n')
    buf = io.BytesIO()
    try:
        P8Formatter.to_file(g, buf)
        buf.seek(0)
        data = buf.getvalue()
        data.decode('utf-8')
        g2 = P8Formatter.from_file(io.BytesIO(data))
        code = b''.join(g2.lua.to_lines())
    except Exception as e:
        raise Violation('.p8 write/read of comment line %s raised %r' % (show(line), e), case, 'file')
    if code != b'-- ' + line + b'\n':
        raise Violation('.p8 write/read turned line %s into %s' % (show(line), show(code)), case, 'file')


def file_roundtrip_longstring(body):
    """Bytes inside a long string - incl. CR, LF, CR LF - through an actual .p8 write and read."""
    from vlib import cartgen
    from pico8.game.formatter.p8 import P8Formatter
    case = {'longstring': bytes(body)}
    code = b's=[==[' + body + b']==]\n'
    g = cartgen.make_game(bytes(0x4300), code=code)
    buf = io.BytesIO()
    try:
        P8Formatter.to_file(g, buf)
        g2 = P8Formatter.from_file(io.BytesIO(buf.getvalue()))
        back = b''.join(g2.lua.to_lines())
    except Exception as e:
        raise Violation('.p8 write/read of a long string holding %s raised %r' % (show(body), e), case, 'file')
    if back != code:
        raise Violation('.p8 write/read changed a long string: wrote %s, read %s' % (show(code), show(back)), case, 'file')


def part_file(ctx):
    # bytes that cannot sit inside a one-line comment are left out: LF ends the line, CR would be
    # (legitimately) re-lexed; everything else must survive
    alphabet = [b for b in range(256) if b not in (0x0a, 0x0d)]
    strat = st.lists(st.sampled_from(alphabet), min_size=1, max_size=40).map(bytes)

    def body(line):
        file_roundtrip(line)
        ctx.stats.case(b'file' + line, nontriv(line), {'file_line': show(line, 60)}, ['file'])
    ctx.hyp('file', strat, body, max_examples=150 if ctx.quick else 1500)
    every = [b for b in range(256) if b != 0x5d]          # ']' would close the long string

    def body2(bs):
        file_roundtrip_longstring(bs)
        ctx.stats.case(b'ls' + bs, nontriv(bs), {'file_longstring': show(bs, 60)}, ['file_longstring'])
    ctx.hyp('file_longstring', st.lists(st.one_of(st.sampled_from(every), st.sampled_from([0x0d, 0x0a, 0x0b, 0x0c, 0x85])),
                                        min_size=1, max_size=30).map(bytes), body2,
            max_examples=150 if ctx.quick else 1500)
    if True:
        for b in alphabet:
            if b % ctx.nshards != ctx.shard:
                continue
            file_roundtrip(bytes((b,)))
            ctx.stats.case(b'file1' + bytes((b,)), nontriv(bytes((b,))), None, ['file_single'])
        for b in every:
            if b % ctx.nshards != ctx.shard:
                continue
            for ctxt in (b'a%sz', b'%s', b'a%s', b'%s\nz', b'a\r%s'):
                file_roundtrip_longstring(ctxt % bytes((b,)))
            ctx.stats.case(b'ls1' + bytes((b,)), nontriv(bytes((b,))), None, ['file_longstring_single'])


def big_code(seed, shape):
    """Code whose Unicode spelling is longer than 64 KiB (each glyph takes 3 or 6 bytes of UTF-8): many comment lines
    of glyphs, or one very long line holding a glyph string with escapes. A few ASCII characters in front shift
    every glyph against any fixed-size block a reader might use."""
    from vlib.choices import expand
    pad = b'x' * (seed[0] % 7)
    if shape == 'lines':
        raw = expand(b'big' + seed, 23000)
        out = bytearray(b'--' + pad + b'\n')
        for i in range(0, len(raw), 61):
            out += b'-- ' + bytes(0x80 + b % 0x80 for b in raw[i:i + 60]) + b'\n'
        return bytes(out)
    raw = expand(b'one' + seed, 22000 + 40 * seed[1])
    body = bytearray()
    for i, b in enumerate(raw):
        if i % 97 == 96:
            body += b'\\n'          # an escape sequence every so often
        else:
            body.append(0x80 + b % 0x80)
    return b'--' + pad + b'\ns="' + bytes(body) + b'" t=1\n'


def file_roundtrip_big(seed, shape):
    from vlib import cartgen
    from pico8.game.formatter.p8 import P8Formatter
    case = {'big': shape, 'seed': bytes(seed)}
    code = big_code(seed, shape)
    g = cartgen.make_game(bytes(0x4300), code=code)
    buf = io.BytesIO()
    try:
        P8Formatter.to_file(g, buf)
        g2 = P8Formatter.from_file(io.BytesIO(buf.getvalue()))
        back = b''.join(g2.lua.to_lines())
    except Exception as e:
        raise Violation('.p8 write/read of %d characters of glyph-heavy code (%s, %d bytes of UTF-8) raised %r'
                        % (len(code), shape, len(buf.getvalue()), e), case, 'file-big')
    if back != code:
        i = next((i for i in range(min(len(back), len(code))) if back[i] != code[i]), min(len(back), len(code)))
        raise Violation('.p8 write/read changed glyph-heavy code (%s, %d characters) at character %d: wrote ...%s, '
                        'read ...%s' % (shape, len(code), i, show(code[max(0, i - 10):i + 20]),
                                        show(back[max(0, i - 10):i + 20])), case, 'file-big')
    return len(buf.getvalue())


HEADER_LIKE = ([b'__' + bytes((b,)) + b'__' for b in range(0x80, 0x100)] +
               [b'__' + bytes((b,)) + b'__' for b in b' -.:/+#!\t'] +
               [b'__\xd9\xdd\xed\xcd__', b'__lua__ ', b' __lua__', b'__lua_', b'_lua__', b'__lua__x', b'__l ua__', b'____',
                b'__lu\x8ba__', b'__gfx\xff__', b'x__gfx__'])


def include_roundtrip(lines, kind='p8'):
    """P8SCII code read through `#include lib.p8`: one more context in which the .p8 text of a cart is decoded."""
    import os
    import tempfile
    from vlib import cartgen, reffmt
    from pico8.game import file as pfile
    code = b''.join(b'-- ' + ln + b'\ns="' + ln + b'"\n' for ln in lines)
    case = {'include_lines': [bytes(ln) for ln in lines]}
    with tempfile.TemporaryDirectory(prefix='c15i_') as td:
        lib = cartgen.make_game(bytes(0x4300), code=code)
        try:
            pfile.to_file(lib, os.path.join(td, 'lib.p8'))
            with open(os.path.join(td, 'main.p8'), 'wb') as fh:
                fh.write(reffmt.write_p8(8, b'x=1\n#include lib.p8\ny=2\n', bytes(0x4300)))
            g = pfile.from_file(os.path.join(td, 'main.p8'))
            back = b''.join(g.lua.to_lines())
        except Exception as e:
            raise Violation('writing lib.p8 / loading a cart that includes it raised %r (lines %s)'
                            % (e, show(b' | '.join(lines), 80)), case, 'include')
    want = b'x=1\n' + code + b'y=2\n'
    if back != want:
        i = next((i for i in range(min(len(back), len(want))) if back[i] != want[i]), min(len(back), len(want)))
        raise Violation('P8SCII code read through #include lib.p8 differs at byte %d: wrote ...%s, read ...%s'
                        % (i, show(want[max(0, i - 10):i + 20]), show(back[max(0, i - 10):i + 20])), case, 'include')


def utf8_lookalikes():
    """P8SCII byte strings that happen to be the UTF-8 encoding of a glyph of the character set (reference table)."""
    from vlib import reffmt
    out = []
    for b in list(range(16, 32)) + list(range(127, 256)):
        enc = reffmt.p8scii_to_text(bytes((b,))).encode('utf-8')
        if all(c >= 0x80 for c in enc):
            out.append(enc)
    return out


def part_file_big(ctx):
    """Long files, and lines that look like - but by the format's ASCII word rule are not - section headers."""
    def body(v):
        seed, shape = v
        n = file_roundtrip_big(seed, shape)
        ctx.stats.case(b'big' + seed + shape.encode(), True, {'big_file': shape, 'utf8_bytes': n}, ['file_big_' + shape])
    ctx.hyp('file_big', st.tuples(st.binary(min_size=2, max_size=2), st.sampled_from(['lines', 'oneline'])), body,
            max_examples=6 if ctx.quick else 40, shrink=False)
    looks = utf8_lookalikes()
    for k in range(0, len(looks), 6):
        if (k // 6) % ctx.nshards != ctx.shard:
            continue
        lines = looks[k:k + 6]
        include_roundtrip(lines)
        file_roundtrip(b' '.join(lines))
        ctx.stats.case(b'inc' + b''.join(lines), True, {'utf8_lookalike_lines': show(b' '.join(lines), 60)} if k % 60 == 0 else None,
                       ['file_utf8_lookalike', 'read_through_include'])
    if ctx.shard == 0:
        # a real section name right after a bare CR is still in the middle of a .p8 line (lines end at LF)
        for name in (b'__gfx__', b'__lua__', b'__map__', b'__label__', b'__sfx__', b'#include x.lua'):
            file_roundtrip_longstring(b'a\r' + name + b'\nz')
            file_roundtrip_longstring(b'\x0e\x83\r' + name + b'\n\xff\x10')
            ctx.stats.case(b'crh' + name, True, {'after_bare_cr': show(name)}, ['file_section_name_after_bare_cr'])
    for k, line in enumerate(HEADER_LIKE):
        if k % ctx.nshards != ctx.shard:
            continue
        for ctxt in (b'a\n%s\nz', b'\n%s\n', b'a\r%s\nz'):
            file_roundtrip_longstring(ctxt % line)
        ctx.stats.case(b'hl' + line, True, {'header_like_line': show(line)} if k % 40 == 0 else None, ['file_header_like_line'])


def parts(tier):
    if tier == 'quick':
        return [('pairs', part_pairs, 4), ('long', part_long, 1), ('file', part_file, 4), ('file_big', part_file_big, 2)]
    return [('pairs', part_pairs, 8), ('long', part_long, 4), ('file', part_file, 4), ('file_big', part_file_big, 4)]


def replay(case):
    if case.get('table'):
        table_invariants()
    elif 'line' in case:
        file_roundtrip(case['line'])
    elif 'longstring' in case:
        file_roundtrip_longstring(case['longstring'])
    elif 'big' in case:
        file_roundtrip_big(case['seed'], case['big'])
    elif 'include_lines' in case:
        include_roundtrip(case['include_lines'])
    else:
        roundtrip(case['bytes'])


def vacuity(total, tier):
    if total.classes.get('pair', 0) != 65536:
        return ['pair space not fully enumerated: %d' % total.classes.get('pair', 0)]
    return []
