"""C19 - luamin keeps the title and author comments that PICO-8 reads."""
from hypothesis import strategies as st

from vlib.runner import Violation, show
from vlib.choices import Choices
from vlib import reflex, luagen
from checks import c01

PROPERTY = 'C19'
LEVEL = 'exploration'
RULE = ('programs = a generated header (0-4 leading comments of kinds `--`, `//`, one-line and multi-line `--[[ ]]`, '
        'with blank lines / blanks / tabs before and between them, LF or CRLF, the last one followed by code on the '
        'next line or - for block comments - on the same line) followed by a LUAGEN program in free layout with '
        'further comments everywhere; configurations {default, keep_all_names, keep_names_from_file}. Oracle: the '
        'output starts with the first two header comments verbatim, each followed by a line break; the reference '
        'lexer finds exactly those comment tokens in the output and none after code; the significant tokens equal '
        'the input\'s modulo renaming (so no comment became code and no code a comment); get_title()/get_byline() '
        'of the re-read output equal the input\'s whenever the input has them. Non-trivial = at least one header '
        'comment and at least one later comment; distinct by source.'
        ' Header comments include one-line levelled long comments --[==[ ... ]==] with nothing after the closing bracket.')
ASSUMPTIONS = ['lexical rules are represented by vlib/reflex.py', 'levelled long comments --[=[ ]=] occur only as one-line header comments with nothing after the closing bracket (there Lua\'s and picotool\'s reading coincide; C07)']
LEVEL_TEXT = ('Exploration: generated header shapes x generated programs; the header clause is checked on bytes, the '
              '"never turns into code" clause with the C01 token oracle.')
LEVEL_NOTE = 'Trusted: vlib/reflex.py, vlib/luagen.py.'
TECHNIQUE = 'Hypothesis-generated header shapes and programs; byte-prefix + reference-lexer token oracles'

WORDS = [b'my game', b'by someone', b'v1.0', b'', b'title: x=1', b'\x8e\x97 glyphs', b'end', b'"quoted', b'a -- b',
         b'// c', b'[[', b'if (a) b', b'--', b'[==[ star hopper ]==]', b'[=[ by c19 ]=]',
         b'>8', b'>8', b'!plain', b'#include x.lua']        # (`-->8` is PICO-8's tab separator: an ordinary comment to the lexer)


def gen_header(ch, nl):
    k = ch.weighted([(30, 0), (60, 1), (80, 2), (50, 3), (20, 4)])
    parts = []
    comments = []
    same_line_code = False
    lead = ch.weighted([(180, b''), (20, b' '), (20, nl), (10, b'\t'), (10, nl + nl), (10, b'  ' + nl + b' ')])
    parts.append(lead)
    for i in range(k):
        kind = ch.weighted([(120, 'dash'), (30, 'slash'), (40, 'block'), (20, 'mblock')])
        word = ch.pick(WORDS)
        levelled = word.startswith(b'[=')
        if levelled and kind != 'dash':
            word = WORDS[0]
            levelled = False
        if kind == 'dash':
            sp = ch.pick([b'', b' '])
            if word.startswith(b'[') and not word.startswith(b'[=') and sp == b'':
                sp = b' '         # (`--[[` would open a block comment; a one-line `--[==[ x ]==]` is a comment under every reading)
            c = b'--' + sp + word
        elif kind == 'slash':
            c = b'//' + ch.pick([b'', b' ']) + word
        elif kind == 'block':
            w = word.replace(b']]', b'] ]')
            c = b'--[[' + w + b']]'
        else:
            w = word.replace(b']]', b'] ]')
            c = b'--[[' + w + nl + ch.pick([b'', b'  ']) + ch.pick(WORDS[:4]) + nl + b']]'
        comments.append(c)
        parts.append(c)
        last = i == k - 1
        if kind in ('block', 'mblock') and ch.chance(60):
            parts.append(ch.pick([b' ', b'', b'  ']))      # next thing on the same line
            if last:
                same_line_code = True
            else:
                continue_same = True  # noqa
        else:
            trail = ch.pick([b'', b'', b' ', b'\t'])
            # (a one-line levelled comment ends at its closing bracket for Lua and at the line end for picotool: keep
            # the two readings identical by putting nothing between the bracket and the line end)
            parts.append((b'' if levelled else trail) + nl)
            if ch.chance(40):
                parts.append(ch.pick([nl, b'  ' + nl, nl + nl]))
            if ch.chance(30):
                parts.append(ch.pick([b' ', b'\t', b'  ']))
    return b''.join(parts), comments, same_line_code


def build(seed, avoid=()):
    ch = Choices(seed)
    crlf = ch.chance(30)
    nl = b'\r\n' if crlf else b'\n'
    header, comments, same_line = gen_header(ch, nl)
    cfg = luagen.Cfg(max_depth=2, max_stmts=1 + ch.below(4), budget=30 + ch.below(60), avoid=avoid)
    model, tags = luagen.gen_program(ch, cfg)
    toks, stmts = luagen.render(model, ch)
    lay = luagen.layout(toks, ch, 'free', crlf=crlf, header=header if header else None)
    config = ch.pick(c01.CONFIGS)
    keep_body = b''
    if config == 'keep_file':
        keep_body, _keep = c01.keep_file_content(ch, [t.text for t in toks if t.kind == 'name'])
    return lay, comments, config, keep_body


def header_of(ref):
    """Comment tokens preceding the first significant token."""
    out = []
    for t in ref:
        if t.kind in reflex.SIGNIFICANT:
            break
        if t.kind == 'comment':
            out.append(t)
    return out


def check(src, config, keep_body, case, ranges=()):
    from pico8.lua import lua as plua
    import os
    import tempfile
    ref_in = reflex.lex(src)
    hdr = header_of(ref_in)
    with tempfile.TemporaryDirectory(prefix='c19_') as td:
        args = {}
        if config == 'keep_all':
            args['keep_all_names'] = True
        elif config == 'keep_file':
            kf = os.path.join(td, 'keep.txt')
            with open(kf, 'wb') as fh:
                fh.write(keep_body)
            args['keep_names_from_file'] = kf
        try:
            l_in, out = c01.minify_lib([src], args)
        except Exception as e:
            raise Violation('minifying a valid program raised %r -- %s' % (e, show(src, 200)), case, 'raises')
        if case.get('via') == 'file_p8':
            # through the .p8 formatter (which runs the writer twice: once to sanity-check, once to write)
            from pico8.game import file as pfile
            from vlib import cartgen, reffmt
            try:
                g = cartgen.make_game(bytes(0x4300), code=src)
                outp = os.path.join(td, 'out.p8')
                pfile.to_file(g, outp, lua_writer_cls=plua.LuaMinifyTokenWriter, lua_writer_args=args)
                out_file = reffmt.read_p8(open(outp, 'rb').read())['code']
            except Exception as e:
                raise Violation('file.to_file(.p8, LuaMinifyTokenWriter) raised %r -- %s' % (e, show(src, 200)),
                                case, 'raises')
            want = out if out.endswith(b'\n') or not out else out + b'\n'
            if out_file != (want or b'\n'):
                raise Violation('the minified code written to a .p8 file differs from the writer\'s own output: '
                                'file %s -- direct %s -- input %s' % (show(out_file, 120), show(out, 120), show(src, 120)),
                                case, 'file-vs-direct')
    want_prefix = b''.join(t.text + b'\n' for t in hdr[:2])
    if not out.startswith(want_prefix):
        raise Violation('luamin output does not start with the first two header comments verbatim, each on its own '
                        'line: expected prefix %s, output starts %s -- input %s'
                        % (show(want_prefix, 100), show(out[:len(want_prefix) + 20], 120), show(src, 160)),
                        case, 'header-verbatim')
    try:
        ref_out = reflex.lex(out)
    except reflex.Malformed as e:
        raise Violation('luamin output does not lex: %s -- output %s' % (e, show(out, 160)), case, 'relex')
    out_comments = [t for t in ref_out if t.kind == 'comment']
    if [t.text for t in out_comments] != [t.text for t in hdr[:2]]:
        raise Violation('luamin output has comments %r, the input header is %r -- input %s -- output %s'
                        % ([show(t.text, 30) for t in out_comments], [show(t.text, 30) for t in hdr[:2]],
                           show(src, 160), show(out, 160)), case, 'header-comments')
    hdr_out = header_of(ref_out)
    if len(hdr_out) != len(out_comments):
        raise Violation('a comment follows code in the luamin output: %s' % show(out, 160), case, 'comment-after-code')
    for t in out_comments:
        nxt = out[t.end:t.end + 1]
        if nxt not in (b'\n', b''):
            raise Violation('header comment %s is not followed by a line break in the output %s'
                            % (show(t.text, 40), show(out, 120)), case, 'header-own-line')
    # no comment became code, no code became comment
    c01.compare_tokens(src, out, case, keep_all=(config == 'keep_all'), ranges=ranges)
    # title / byline
    try:
        l_out = plua.Lua.from_lines([out], version=8)
    except Exception as e:
        raise Violation('luamin output is rejected by picotool: %r -- %s' % (e, show(out, 160)), case, 'reparse')
    # picotool derives title/byline positionally (first token / third token must be comments): assert them only
    # when the input's values really come from the first / second header comment
    title_in = l_in.get_title()
    names = []
    if title_in is not None and hdr and bytes(l_in.tokens[0]._data) == hdr[0].text:
        names.append('get_title')
        if (len(hdr) >= 2 and len(l_in.tokens) >= 3 and type(l_in.tokens[2]).__name__ == 'TokComment'
                and bytes(l_in.tokens[2]._data) == hdr[1].text):
            names.append('get_byline')
    for name in names:
        a = getattr(l_in, name)()
        b = getattr(l_out, name)()
        if a is not None and a != b:
            raise Violation('%s() was %s before minifying and is %s after -- input %s -- output %s'
                            % (name, show(a, 40), show(b, 40) if b is not None else None, show(src, 120),
                               show(out, 120)), case, 'title-byline')
    return hdr, ref_in


def part_headers(ctx):
    def body(seed):
        lay, comments, config, keep_body = build(seed, ctx.open_findings)
        if luagen.verify(lay) is None:
            ctx.stats.exclude('generator_selfcheck_failed')
            return
        src = lay.src
        ref = reflex.lex(src)
        if len(header_of(ref)) < len(comments):
            # header text re-lexed differently from what was intended (e.g. a word closing a block comment)
            ctx.stats.exclude('header_relexed_differently')
            return
        case = {'source': src, 'config': config, 'keep': keep_body}
        if seed[1] % 4 == 0 and b'#include' not in src:
            case['via'] = 'file_p8'
        hdr, ref_in = check(src, config, keep_body, case, c01.scoped_ranges(lay.kept))
        later = sum(1 for t in ref_in if t.kind == 'comment') - len(hdr)
        labs = ['header_%d' % min(len(hdr), 4), 'cfg_' + config]
        if case.get('via'):
            labs.append('via_file_p8')
            if not src.endswith(b'\n'):
                labs.append('via_file_p8_no_final_newline')
        if any(t.text.startswith(b'//') for t in hdr[:2]):
            labs.append('slash_header')
        if any(t.text.startswith(b'--[[') for t in hdr[:2]):
            labs.append('block_header')
        if any(b'\n' in t.text for t in hdr[:2]):
            labs.append('multiline_header')
        if later:
            labs.append('later_comments')
        if src[:1] in (b' ', b'\t', b'\n', b'\r'):
            labs.append('blank_before_header')
        ctx.stats.case(src + config.encode(), len(hdr) >= 1 and later >= 1,
                       {'source': show(src, 160), 'config': config, 'labels': labs}, labs)
    ctx.hyp('headers', st.binary(min_size=500, max_size=500), body, max_examples=450 if ctx.quick else 6000)


def fixed_shapes():
    yield b'-- title\n-- author\nx=1\n'
    yield b'-- title\n-- author\n-- third\nx=1 -- later\n'
    yield b'--title\nx=1\n--not header\ny=2\n'
    yield b'x=1\n-- not a header\n'
    yield b'-- cave diver\n-->8\n-- helpers\nfunction f(a) return a end\n'
    yield b'-->8\n-- tab two\nx=1\n'
    yield b'// title\n// author\nx=1\n'
    yield b'--[[title]]--[[author]]x=1\n'
    yield b'--[[title]] x=1 --[[later]] y=2\n'
    yield b'--[[multi\nline]]\n-- author\n\n\nx=1\n'
    yield b'\n\n-- title\n\n-- author\nx=1\n'
    yield b'  -- title\n\t-- author\nx=1'
    yield b'-- title\r\n-- author\r\nx=1\r\n'
    yield b'-- only comments\n-- here\n-- three\n'
    yield b'--\n--\nx=1\n'
    yield b'-- t\nx=1 ?"s"\n-- c\nif (x) y=1 -- eol\nz=2\n'
    yield b'-- title\n-- author\nx=1'
    yield b'-- title\n-- author\nd = hi - --[[why]] -lo\n'


def part_fixed(ctx):
    for src in fixed_shapes():
        for config in ('default', 'keep_all'):
            hdr, ref_in = check(src, config, b'', {'source': src, 'config': config, 'keep': b''})
            check(src, config, b'', {'source': src, 'config': config, 'keep': b'', 'via': 'file_p8'})
            ctx.stats.case(src + config.encode(), len(hdr) >= 1, {'source': show(src, 100)}, ['fixed_shape'])


def parts(tier):
    if tier == 'quick':
        return [('headers', part_headers, 6), ('fixed', part_fixed, 1)]
    return [('headers', part_headers, 15), ('fixed', part_fixed, 1)]


def replay(case):
    check(case['source'], case.get('config', 'default'), case.get('keep', b''), case)


def vacuity(total, tier):
    msgs = []
    for lab in ('header_0', 'header_1', 'header_2', 'header_3', 'slash_header', 'block_header', 'multiline_header',
                'later_comments', 'blank_before_header', 'cfg_keep_file', 'via_file_p8', 'via_file_p8_no_final_newline'):
        if total.classes.get(lab, 0) < 5:
            msgs.append('class %s seen %d times' % (lab, total.classes.get(lab, 0)))
    return msgs
