"""C02 - luamin renaming is a consistent injection that respects reserved names."""
import os
import tempfile

from hypothesis import strategies as st

from vlib.runner import Violation, show
from vlib.choices import Choices
from vlib import reflex, reffmt
from checks import c01

PROPERTY = 'C02'
LEVEL = 'exploration'
RULE = ('programs built from identifier-only statement templates (assignments, calls, fields, methods, parameters, '
        'locals, labels/goto, function names) over controlled identifier populations of 1..3000 names (quick <= 800) '
        'drawn from pools: long names, names equal to would-be generated ids (a..z, aa, ba, ...), PICO-8 builtins, '
        'glyph names, keyword look-alikes; each name used in several syntactic roles; keep-files = subsets of program '
        'names, would-be ids, builtins, absent names, with CRLF / blank / # / padded lines; configs {default, '
        'keep-all, keep-file}; library, `p8tool luamin` and `p8tool build --lua-minify` entry points. Exhaustive part: a '
        'program declaring N fresh names (N = 20,000 quick, 300,000 thorough), so that every generated short name '
        'id below N is observed. Oracle: identifier tokens of input and output aligned by position form an injective '
        'function; keywords/builtins/kept names (all names under keep-all) are unchanged; a changed name is a valid '
        'identifier that is not a keyword, builtin or kept name. Non-trivial = >= 2 renamed and >= 1 preserved '
        'identifier; distinct by (source, keep-file, config).'
        ' Part "keepfiles" enumerates keep-file shapes (each notable name - incl. glyph names whose bytes equal Unicode byte-order marks - as first/only/last line x LF/CRLF x final newline x leading blank/comment line); keep files of generated populations are in arbitrary order; part "keepfile_history" rewrites ONE keep-file path in place between runs of one process (same length, timestamps restored; library and CLI) and requires every run to honour the file as it then is.')
ASSUMPTIONS = ['PICO-8 API/callback names = picotool\'s PICO8_BUILTINS united with a frozen copy kept in this check '
               '(a name dropped from picotool\'s set is noticed; additions are allowed)',
               'lexical rules are represented by vlib/reflex.py']
LEVEL_TEXT = ('Exploration with an exhaustive id range: generated identifier populations large enough to reach two- and '
              'three-letter generated names, adversarial keep-files, and every generated id below N observed through '
              'the public writer.')
LEVEL_NOTE = 'Trusted: vlib/reflex.py for aligning identifier tokens.'
TECHNIQUE = 'Hypothesis-generated identifier populations and keep-files; injectivity / reserved-name oracle; exhaustive id range'

FROZEN_BUILTINS = frozenset([
    b'?', b'__index', b'_draw', b'_init', b'_update', b'_update60', b'_update_buttons', b'abs', b'add', b'all',
    b'assert', b'atan2', b'band', b'bnot', b'bor', b'btn', b'btnp', b'bxor', b'camera', b'cartdata', b'ceil', b'chr',
    b'circ', b'circfill', b'clip', b'cls', b'cocreate', b'color', b'coresume', b'cos', b'costatus', b'count',
    b'cstore', b'cursor', b'del', b'deli', b'dget', b'dir', b'dset', b'extcmd', b'fget', b'fillp', b'flip', b'flr',
    b'folder', b'foreach', b'fset', b'getmetatable', b'info', b'line', b'load', b'ls', b'lshr', b'map', b'mapdraw',
    b'max', b'memcpy', b'memset', b'menuitem', b'mget', b'mid', b'min', b'mset', b'music', b'ord', b'oval',
    b'ovalfill', b'pairs', b'pal', b'palt', b'peek', b'peek2', b'peek4', b'pget', b'poke', b'poke2', b'poke4',
    b'print', b'printh', b'pset', b'rawequal', b'rawget', b'rawlen', b'rawset', b'reboot', b'rect', b'rectfill',
    b'reload', b'resume', b'rnd', b'rotl', b'rotr', b'run', b'save', b'self', b'serial', b'setmetatable', b'sfx',
    b'sget', b'sgn', b'shl', b'shr', b'sin', b'split', b'spr', b'sqrt', b'srand', b'sset', b'sspr', b'stat', b'stop',
    b'sub', b't', b'time', b'tline', b'tonum', b'tostr', b'type', b'yield', b'\x83', b'\x8b', b'\x8e', b'\x91',
    b'\x94', b'\x97'])


def reserved():
    from pico8.lua import lua as plua
    return frozenset(plua.PICO8_BUILTINS) | FROZEN_BUILTINS


def short_id(n):
    """The n-th name in a/b/../z/ba/bb.. order (what a base-26 allocator would produce) - used only to build
    inputs that collide with would-be generated names."""
    s = b''
    while True:
        s = bytes((97 + n % 26,)) + s
        n //= 26
        if n == 0:
            return s


SPECIAL_NAMES = ([short_id(i) for i in range(0, 60)] + [short_id(i) for i in (26, 27, 52, 675, 676, 677, 702, 703)] +
                 [b'endx', b'_if', b'nilly', b'do_', b'ifx', b'ands', b'\x8ex', b'x\x97', b'\x80', b'\xff\xfe',
                  b'_', b'__', b'_a', b'A', b'Ab', b'a1', b'a_',
                  # glyph names whose bytes coincide with the byte-order marks of Unicode text files
                  b'\xef\xbb\xbfx', b'\xef\xbb\xbf', b'\xff\xfey', b'\xefmato', b'\xbb\xbfz'])
SIGNATURE_NAMES = SPECIAL_NAMES[-5:]


def gen_names(ch, n):
    names = []
    seen = set()
    builtins = sorted(FROZEN_BUILTINS - {b'?'})
    style = ch.below(4)
    for k in range(n):
        r = ch.below(100)
        if r < 12:
            nm = ch.pick(SPECIAL_NAMES)
        elif r < 20:
            nm = ch.pick(builtins)
        elif style == 0:
            nm = b'v%d' % k
        elif style == 1:
            nm = b'name_' + short_id(k) + b'_x'
        elif style == 2:
            nm = short_id(k * 7 + ch.below(5))
        else:
            nm = bytes((0x80 + k % 0x80,)) + b'%d' % (k // 0x80)
        if nm in reflex.KEYWORDS or nm in seen:
            nm = b'u%d_' % k
        seen.add(nm)
        names.append(nm)
    return names


def gen_program_text(ch, names):
    """Statements using each name in 1-5 roles; labels/gotos come from the same population."""
    out = []
    n = len(names)
    # Lua allows blanks inside ':: name ::'.  The pinned picotool only parses compact labels, so such a program
    # is in C02's domain only for a tree that parses it to the end (precondition checked by the caller).
    spaced_labels = ch.chance(16)

    def pick():
        return names[ch.below(n)]
    for i, nm in enumerate(names):
        uses = 1 + ch.below(3)
        for _ in range(uses):
            k = ch.below(12)
            a, b, c = pick(), pick(), pick()
            if k == 0:
                out.append(nm + b'=' + a)
            elif k == 1:
                out.append(a + b'.' + nm + b'=' + b)
            elif k == 2:
                out.append(a + b':' + nm + b'(' + b + b')')
            elif k == 3:
                out.append(b'local ' + nm + b'=' + a + b'.' + b)
            elif k == 4:
                out.append(b'function ' + nm + b'(' + a + b',' + b + b') return ' + a + b' end'
                           if a != b else b'function ' + nm + b'(' + a + b') return ' + a + b' end')
            elif k == 5:
                out.append(b'function ' + a + b'.' + nm + b'(' + b + b') end')
            elif k == 6:
                if spaced_labels:
                    out.append(b'::' + ch.pick([b' ', b'  ', b'\t']) + nm + ch.pick([b' ', b'', b'  ']) + b'::')
                else:
                    out.append(b'::' + nm + b'::')
            elif k == 7:
                out.append(b'goto ' + nm)
            elif k == 8:
                out.append(a + b'={' + nm + b'=' + b + b',' + c + b'}')
            elif k == 9:
                out.append(b'for ' + nm + b'=' + a + b',' + b + b' do ' + c + b'(' + nm + b') end')
            elif k == 10:
                out.append(b'function ' + a + b':' + nm + b'() return self.' + nm + b' end')
            else:
                out.append(a + b'[' + nm + b']=' + b + b'.' + nm + b'.' + c)
    sep = ch.pick([b'\n', b'\n', b' ', b';'])
    src = sep.join(out) + b'\n'
    return src


def gen_keep(ch, names):
    lines = []
    keep = set()
    for nm in names:
        if ch.chance(60):
            keep.add(nm)
    for nm in SPECIAL_NAMES[:30]:
        if ch.chance(40):
            keep.add(nm)
    for nm in (b'print', b'spr', b'zz_absent', b'another_absent_name'):
        if ch.chance(60):
            keep.add(nm)
    for nm in SIGNATURE_NAMES:
        if ch.chance(50):
            keep.add(nm)
    nl = b'\r\n' if ch.chance(60) else b'\n'
    if ch.chance(100):
        lines.append(b'# keep these')
    # the order of a keep file carries no meaning: sorted, rotated, or a glyph name first
    order = sorted(keep)
    if order and ch.chance(128):
        k = ch.below(len(order))
        order = order[k:] + order[:k]
    high = [nm for nm in order if nm[0] >= 0x80]
    used_sig = [nm for nm in high if nm[0] in (0xef, 0xbb, 0xbf, 0xff, 0xfe) and nm in names]
    if high and ch.chance(100):
        pool = used_sig if (used_sig and ch.chance(180)) else high
        first = pool[ch.below(len(pool))]
        order.remove(first)
        order.insert(0, first)
    for nm in order:
        lines.append(ch.pick([b'', b'', b' ', b'\t ']) + nm + ch.pick([b'', b'', b' ', b'\t']))
        if ch.chance(30):
            lines.append(b'')
        if ch.chance(20):
            lines.append(b'   # ' + nm)
    body = nl.join(lines)
    if ch.chance(220) or not lines:
        body += nl
    return body, keep


def ident_pairs(src, out, case, what):
    try:
        ri = reflex.significant(reflex.lex(src))
    except reflex.Malformed as e:
        raise RuntimeError('generator produced malformed source: %s' % e)
    try:
        ro = reflex.significant(reflex.lex(out))
    except reflex.Malformed as e:
        raise Violation('%s output does not lex: %s -- %s' % (what, e, show(out, 160)), case, 'relex')
    if len(ri) != len(ro):
        raise Violation('%s changed the number of tokens from %d to %d -- input %s -- output %s'
                        % (what, len(ri), len(ro), show(src, 120), show(out, 120)), case, 'count')
    pairs = []
    for a, b in zip(ri, ro):
        if a.kind != b.kind:
            raise Violation('%s turned %s %s into %s %s -- input %s' % (what, a.kind, show(a.text, 30), b.kind,
                                                                      show(b.text, 30), show(src, 120)), case, 'kind')
        if a.kind == 'name':
            pairs.append((a.text, b.text))
        elif a.kind == 'label':
            pairs.append((a.value, b.value))
        elif a.kind == 'keyword' and a.text != b.text:
            raise Violation('%s changed keyword %s to %s' % (what, show(a.text), show(b.text)), case, 'keyword')
    return pairs


def check_pairs(pairs, config, keep, case, what):
    res = reserved()
    fwd = {}
    back = {}
    for i, o in pairs:
        if fwd.setdefault(i, o) != o:
            raise Violation('%s renames %s both to %s and to %s' % (what, show(i), show(fwd[i]), show(o)), case, 'function')
        if back.setdefault(o, i) != i:
            raise Violation('%s maps both %s and %s to %s' % (what, show(back[o]), show(i), show(o)), case, 'injective')
    renamed = preserved = 0
    for i, o in fwd.items():
        must_keep = config == 'keep_all' or i in res or (config == 'keep_file' and i in keep)
        if must_keep and o != i:
            why = 'keep-all-names' if config == 'keep_all' else ('a PICO-8 builtin' if i in res else 'listed in the keep-file')
            raise Violation('%s renamed %s to %s although it is %s' % (what, show(i), show(o), why), case, 'preserve')
        if o != i:
            renamed += 1
            if o in reflex.KEYWORDS:
                raise Violation('%s generated the keyword %s for %s' % (what, show(o), show(i)), case, 'generated-keyword')
            if o in res:
                raise Violation('%s generated the reserved name %s for %s' % (what, show(o), show(i)), case, 'generated-reserved')
            if config == 'keep_file' and o in keep:
                raise Violation('%s generated the kept name %s for %s' % (what, show(o), show(i)), case, 'generated-kept')
            if not o or not reflex.is_name_start(o[0]) or not all(reflex.is_name_char(c) for c in o):
                raise Violation('%s generated an invalid identifier %s' % (what, show(o)), case, 'generated-invalid')
        else:
            preserved += 1
    return renamed, preserved, fwd


class _PipeFeeder:
    """A named pipe standing in for a shell's process substitution: the first reader gets `content`, later ones EOF."""

    def __init__(self, path, content):
        import threading
        os.mkfifo(path)
        self.path, self.content, self.done, self.opens = path, content, False, 0
        self.thread = threading.Thread(target=self._feed, daemon=True)
        self.thread.start()

    def _feed(self):
        while not self.done:
            try:
                fd = os.open(self.path, os.O_WRONLY)        # (blocks until somebody opens the pipe for reading)
            except OSError:
                return
            try:
                if self.opens == 0 and not self.done:
                    os.write(fd, self.content)
                self.opens += 1
            except OSError:
                pass
            finally:
                os.close(fd)
            if not self.done:
                __import__('time').sleep(0.01)               # (let the reader see EOF before the next open)

    def stop(self):
        self.done = True
        try:
            fd = os.open(self.path, os.O_RDONLY | os.O_NONBLOCK)     # unblock a feeder waiting in open()
            os.close(fd)
        except OSError:
            pass
        self.thread.join(2)


def _run_cli(src, config, keep, via, case, td, cli):
    """The command-line routes of run() (used when the keep file is a pipe)."""
    from pico8 import tool
    if via == 'build':
        lp = os.path.join(td, 'm.lua')
        with open(lp, 'wb') as fh:
            fh.write(src)
        outp = os.path.join(td, 'o.p8')
        argv, what = ['build', outp, '--lua', lp, '--lua-minify'] + cli, '`p8tool build --lua-minify` (keep file is a pipe)'
    elif via == 'luamin_two':
        p1, path = os.path.join(td, 'first.p8'), os.path.join(td, 'second.p8')
        with open(p1, 'wb') as fh:
            fh.write(reffmt.write_p8(8, b'warm_up_a=1 warm_up_b=warm_up_a\n', bytes(0x4300)))
        with open(path, 'wb') as fh:
            fh.write(reffmt.write_p8(8, src, bytes(0x4300)))
        outp = os.path.join(td, 'second_fmt.p8')
        argv, what = ['luamin'] + cli + [p1, path], '`p8tool luamin` (second of two carts, keep file is a pipe)'
    else:
        path = os.path.join(td, 'c.p8')
        with open(path, 'wb') as fh:
            fh.write(reffmt.write_p8(8, src, bytes(0x4300)))
        outp = os.path.join(td, 'c_fmt.p8')
        argv, what = ['luamin'] + cli + [path], '`p8tool luamin` (keep file is a pipe)'
    try:
        rc = tool.main(argv)
    except Exception as e:
        raise Violation('%s raised %r' % (what, e), case, 'cli')
    if rc != 0:
        raise Violation('%s returned %r' % (what, rc), case, 'cli')
    out = reffmt.read_written(open(outp, 'rb').read(), case)['code']
    return check_pairs(ident_pairs(src, out, case, what), config, keep, case, what)


def run(src, config, keep_body, keep, via, case):
    from pico8 import tool
    with tempfile.TemporaryDirectory(prefix='c02_') as td:
        args = {}
        cli = []
        if config == 'keep_all':
            args['keep_all_names'] = True
            cli = ['--keep-all-names']
        elif config == 'keep_file':
            kf = os.path.join(td, 'keep.txt')
            if case.get('keep_is_pipe') and via != 'lib':
                # the names come through a pipe (`--keep-names-from-file <(grep -v tmp names.txt)`): whoever opens it
                # first gets the text, every later open gets an empty file
                feeder = _PipeFeeder(kf, keep_body)
            else:
                feeder = None
                with open(kf, 'wb') as fh:
                    fh.write(keep_body)
            args['keep_names_from_file'] = kf
            cli = ['--keep-names-from-file', kf]
            if feeder is not None:
                try:
                    return _run_cli(src, config, keep, via, case, td, cli)
                finally:
                    feeder.stop()
        what = 'luamin'
        if via == 'lib':
            try:
                _l, out = c01.minify_lib([src], args)
            except Exception as e:
                raise Violation('minifying raised %r -- %s' % (e, show(src, 160)), case, 'raises')
        elif via == 'luamin_two':
            what = '`p8tool luamin` (second of two carts in one invocation)'
            p1, p2 = os.path.join(td, 'first.p8'), os.path.join(td, 'second.p8')
            with open(p1, 'wb') as fh:
                fh.write(reffmt.write_p8(8, b'warm_up_a=1 warm_up_b=warm_up_a\n', bytes(0x4300)))
            with open(p2, 'wb') as fh:
                fh.write(reffmt.write_p8(8, src, bytes(0x4300)))
            try:
                rc = tool.main(['luamin'] + cli + [p1, p2])
            except Exception as e:
                raise Violation('`p8tool luamin` on two carts raised %r' % e, case, 'cli')
            if rc != 0:
                raise Violation('`p8tool luamin` on two carts returned %r' % rc, case, 'cli')
            out = reffmt.read_written(open(os.path.join(td, 'second_fmt.p8'), 'rb').read(), case)['code']
        elif via == 'luamin':
            what = '`p8tool luamin`'
            path = os.path.join(td, 'c.p8')
            with open(path, 'wb') as fh:
                fh.write(reffmt.write_p8(8, src, bytes(0x4300)))
            try:
                rc = tool.main(['luamin'] + cli + [path])
            except Exception as e:
                raise Violation('`p8tool luamin` raised %r' % e, case, 'cli')
            if rc != 0:
                raise Violation('`p8tool luamin` returned %r' % rc, case, 'cli')
            out = reffmt.read_written(open(os.path.join(td, 'c_fmt.p8'), 'rb').read(), case)['code']
        else:
            what = '`p8tool build --lua-minify`'
            lp = os.path.join(td, 'm.lua')
            with open(lp, 'wb') as fh:
                fh.write(src)
            outp = os.path.join(td, 'o.p8')
            try:
                rc = tool.main(['build', outp, '--lua', lp, '--lua-minify'] + cli)
            except Exception as e:
                raise Violation('`p8tool build --lua-minify` raised %r' % e, case, 'cli')
            if rc != 0:
                raise Violation('`p8tool build --lua-minify` returned %r' % rc, case, 'cli')
            out = reffmt.read_written(open(outp, 'rb').read(), case)['code']
    pairs = ident_pairs(src, out, case, what)
    return check_pairs(pairs, config, keep, case, what)


def fully_parsed(src):
    """The property quantifies over programs picotool parses: evaluated against the tree under test."""
    from pico8.lua import lua as plua
    try:
        l = plua.Lua.from_lines([src], version=8)
    except Exception:
        return False
    sig = [i for i, t in enumerate(l.tokens) if type(t).__name__ not in ('TokSpace', 'TokNewline', 'TokComment')]
    return not sig or l.root.end_pos > sig[-1]


def build_case(seed, quick=True):
    ch = Choices(seed)
    size_class = ch.weighted([(80, 'small'), (80, 'medium'), (40, 'large'), (16, 'huge')])
    n = {'small': 1 + ch.below(12), 'medium': 20 + ch.below(60), 'large': 100 + ch.below(700 if quick else 900),
         'huge': (703 + ch.below(100)) if quick else (1000 + ch.below(2000))}[size_class]
    names = gen_names(ch, n)
    src = gen_program_text(ch, names)
    config = ch.pick(c01.CONFIGS)
    keep_body, keep = (b'', set())
    if config == 'keep_file':
        keep_body, keep = gen_keep(ch, names)
    via = ch.weighted([(200, 'lib'), (18, 'luamin'), (18, 'build'), (22, 'luamin_two')])
    return src, names, config, keep_body, keep, via


def parse_keep(body):
    keep = set()
    for ln in body.split(b'\n'):
        ln = ln.strip()
        if ln and not ln.startswith(b'#'):
            keep.add(ln)
    return keep


def part_populations(ctx):
    def body(seed):
        src, names, config, keep_body, keep, via = build_case(seed, ctx.quick)
        case = {'source': src, 'config': config, 'keep': keep_body, 'via': via}
        if config == 'keep_file' and via in ('luamin', 'build') and seed[-1] % 2 == 0:
            case['keep_is_pipe'] = True
        if config == 'keep_file' and via == 'luamin_two' and seed[-1] % 2 == 0:
            if 'keep_pipe_several_carts' in ctx.open_findings:
                ctx.stats.exclude('keep file is a pipe, several carts in one call (known finding, left out)')
            else:
                case['keep_is_pipe'] = True
        if not fully_parsed(src):
            ctx.stats.exclude('not_parsed_to_the_end_by_this_tree')
            return
        renamed, preserved, fwd = run(src, config, keep_body, keep, via, case)
        labs = ['cfg_' + config, 'via_' + via]
        if case.get('keep_is_pipe'):
            labs.append('keep_file_is_a_pipe')
        n = len(fwd)
        if n >= 27:
            labs.append('population>=27')
        if n >= 703:
            labs.append('population>=703')
        if config == 'keep_file' and any(k in keep for k in SPECIAL_NAMES[:60]):
            labs.append('keepfile_has_would_be_id')
        if config == 'keep_file' and keep_body.lstrip()[:1] >= b'\x80':
            labs.append('keepfile_starts_with_glyph_name')
            if keep_body.lstrip()[:1] in (b'\xef', b'\xbb', b'\xbf', b'\xff', b'\xfe') and parse_keep(keep_body.split(b'\n')[0].rstrip(b'\r')) & set(names):
                labs.append('keepfile_starts_with_used_signature_name')
        if any(i in reserved() for i in fwd):
            labs.append('uses_builtin')
        ctx.stats.case(src + config.encode() + keep_body, renamed >= 2 and preserved >= 1,
                       {'names': n, 'config': config, 'via': via, 'source': show(src, 100),
                        'keep_file': show(keep_body, 60)}, labs)
    ctx.hyp('populations', st.binary(min_size=3000, max_size=3000), body, max_examples=120 if ctx.quick else 1200,
            shrink=not ctx.quick)   # programs of thousands of names shrink for minutes; the quick tier reports as found


def part_keepfiles(ctx):
    """Keep-file shapes, systematically: each notable name as the first / only / last line, with LF and CR LF, with and
    without a final newline, after a blank line or a comment line."""
    notable = SIGNATURE_NAMES + [b'\x80', b'\xff\xfe', b'a', b'_', b'ba', b'x\x97']
    k = 0
    for first in notable:
        for others in ((), (b'score',), (b'zz_absent', b'score', b'b')):
            for nl in (b'\n', b'\r\n'):
                for lead in (b'', nl, b'# names' + nl, b' '):
                    for final in (True, False):
                        k += 1
                        if k % ctx.nshards != ctx.shard:
                            continue
                        lines = [first] + list(others)
                        if others and k % 3 == 0:
                            lines = list(others) + [first]
                        body = lead + nl.join(lines) + (nl if final else b'')
                        keep = set(lines)
                        names = [first, b'score', b'b', b'lives'] + [b'filler%d' % i for i in range(30)]
                        src = b''.join(nm + b'=' + names[(i + 1) % len(names)] + b'\n' for i, nm in enumerate(names))
                        src += b'print(' + first + b'.' + first + b')\n'
                        case = {'source': src, 'config': 'keep_file', 'keep': body, 'via': 'lib'}
                        run(src, 'keep_file', body, keep, 'lib', case)
                        ctx.stats.case(b'kf' + body, True, {'keep_file': show(body, 60)} if k % 40 == 1 else None,
                                       ['keepfile_shape'])


def run_rewritten(src, bodies, via, case):
    """One process, one keep-file path, several runs: before each run the file is rewritten in place (same length,
    timestamps put back, as `cp -p`, rsync -t or a save within one clock tick leave them).  Each run must honour the
    file as it is at that moment."""
    from pico8 import tool
    with tempfile.TemporaryDirectory(prefix='c02r_') as td:
        kf = os.path.join(td, 'keep.txt')
        stamp = None
        for step, body in enumerate(bodies):
            with open(kf, 'wb') as fh:
                fh.write(body)
            if stamp is None:
                st_ = os.stat(kf)
                stamp = (st_.st_atime_ns, st_.st_mtime_ns)
            else:
                os.utime(kf, ns=stamp)
            keep = parse_keep(body.replace(b'\r', b''))
            c = dict(case, step=step)
            if via == 'lib':
                try:
                    _l, out = c01.minify_lib([src], {'keep_names_from_file': kf})
                except Exception as e:
                    raise Violation('minifying raised %r -- %s' % (e, show(src, 160)), c, 'raises')
                what = 'luamin (run %d on the same keep-file path)' % (step + 1)
            else:
                path = os.path.join(td, 'c.p8')
                with open(path, 'wb') as fh:
                    fh.write(reffmt.write_p8(8, src, bytes(0x4300)))
                try:
                    rc = tool.main(['luamin', '--keep-names-from-file', kf, path])
                except Exception as e:
                    raise Violation('`p8tool luamin` raised %r' % e, c, 'cli')
                if rc != 0:
                    raise Violation('`p8tool luamin` returned %r' % rc, c, 'cli')
                out = reffmt.read_written(open(os.path.join(td, 'c_fmt.p8'), 'rb').read(), c)['code']
                what = '`p8tool luamin` (run %d on the same keep-file path)' % (step + 1)
            check_pairs(ident_pairs(src, out, c, what), 'keep_file', keep, c, what)


def part_keepfile_history(ctx):
    names = [b'alpha', b'gamma', b'omega', b'score', b'lives', b'x', b'y', b'zz'] + [b'filler%d' % i for i in range(30)]
    src = b''.join(nm + b'=' + names[(i + 1) % len(names)] + b'\n' for i, nm in enumerate(names))
    seqs = [[b'alpha\n', b'gamma\n'], [b'alpha\n', b'gamma\n', b'alpha\n'], [b'score\r\nx\r\n', b'lives\r\ny\r\n'],
            [b'x', b'y', b'x'], [b'# k\nalpha\nscore\n', b'# k\nomega\nlives\n'], [b'alpha\n', b'alpha\n'],
            [b'alpha\ngamma\n', b'omega\n#####\n']]
    k = 0
    for bodies in seqs:
        for via in ('lib', 'luamin'):
            k += 1
            if k % ctx.nshards != ctx.shard:
                continue
            case = {'source': src, 'keep_history': bodies, 'via': via}
            run_rewritten(src, bodies, via, case)
            ctx.stats.case(b'kh' + b'|'.join(bodies) + via.encode(), True,
                           {'keep_file_history': [show(b, 30) for b in bodies], 'via': via}, ['keepfile_rewritten_in_place'])


def part_ids(ctx):
    """Every generated short-name id below N, observed through the public writer."""
    total = 20000 if ctx.quick else 300000
    per = total // ctx.nshards
    # each shard minifies one program of `per` fresh names preceded by `skip` throw-away names so that the
    # shards together cover ids 0..total-1; names are long, so none collides with a generated one
    lo = ctx.shard * per
    names = [b'fresh_%d_' % k for k in range(lo + per)]
    src = b''.join(nm + b'=0\n' for nm in names)
    case = {'source_ids': [0, lo + per]}
    try:
        _l, out = c01.minify_lib([src], {})
    except Exception as e:
        raise Violation('minifying %d names raised %r' % (len(names), e), case, 'raises')
    pairs = ident_pairs(src, out, case, 'luamin')
    renamed, preserved, fwd = check_pairs(pairs, 'default', set(), case, 'luamin')
    if renamed != len(names):
        raise Violation('only %d of %d fresh names were renamed' % (renamed, len(names)), case, 'ids')
    ctx.stats.evaluations += per
    ctx.stats.count('ids_observed', per)
    ctx.stats.nontrivial.update(fwd[nm] for nm in names[lo:lo + per][:2000])
    ctx.stats.extra['exhaustive'] = True
    ctx.stats.samples.append({'id_range': [lo, lo + per], 'first': show(fwd[names[lo]]), 'last': show(fwd[names[-1]])})


def parts(tier):
    if tier == 'quick':
        return [('populations', part_populations, 10), ('ids', part_ids, 4), ('keepfiles', part_keepfiles, 2),
                ('keepfile_history', part_keepfile_history, 1)]
    return [('populations', part_populations, 11), ('ids', part_ids, 3), ('keepfiles', part_keepfiles, 1),
            ('keepfile_history', part_keepfile_history, 1)]


def replay(case):
    if 'source_ids' in case:
        a, b = case['source_ids']
        names = [b'fresh_%d_' % k for k in range(b)]
        src = b''.join(nm + b'=0\n' for nm in names)
        _l, out = c01.minify_lib([src], {})
        check_pairs(ident_pairs(src, out, case, 'luamin'), 'default', set(), case, 'luamin')
        return
    if 'keep_history' in case:
        run_rewritten(case['source'], case['keep_history'], case.get('via', 'lib'), case)
        return
    keep_body = case.get('keep', b'')
    run(case['source'], case.get('config', 'default'), keep_body, parse_keep(keep_body), case.get('via', 'lib'), case)


def vacuity(total, tier):
    msgs = []
    for lab in ('population>=27', 'population>=703', 'keepfile_has_would_be_id', 'uses_builtin', 'cfg_keep_all',
                'via_luamin', 'via_build', 'via_luamin_two', 'keepfile_starts_with_glyph_name', 'keepfile_shape', 'keepfile_rewritten_in_place',
                'keep_file_is_a_pipe'):
        if total.classes.get(lab, 0) < 2:
            msgs.append('class %s seen %d times' % (lab, total.classes.get(lab, 0)))
    return msgs
