"""C01 - luamin keeps the program: same tokens modulo renaming, nothing glued."""
import os
import re
import tempfile

from hypothesis import strategies as st

from vlib.runner import Violation, show
from vlib.choices import Choices
from vlib import reflex, luagen, lexatoms, reffmt

PROPERTY = 'C01'
LEVEL = 'exploration'
RULE = ('programs = LUAGEN model trees of the dialect (all statement kinds, PICO-8 operators, compound assignment, '
        'short-if, `?`, `//` comments, glyph identifiers, every numeral and string form) rendered in free, minimal '
        'and one-statement-per-line layouts; plus the systematic adjacency table: every ordered pair of token atoms '
        'that can be adjacent in a statement template (operators, numerals of every form, strings of every quote '
        'kind, names, keywords, `...`) x configurations {default, keep_all_names, keep_names_from_file}; entry points '
        'Lua.to_lines(LuaMinifyTokenWriter) for all cases, `p8tool luamin` on .p8/.p8.png carts and `p8tool build '
        '--lua-minify` on a subset. Oracle: the reference lexer reads the output to exactly the input\'s significant '
        'tokens (keywords/symbols by spelling, numbers by value, strings by decoded value, identifiers related by one '
        'renaming function, identity under keep-all); every line-scoped construct (short-if, `?` line) has no line '
        'break inside and one right after; only leading header comments survive; picotool\'s token count is '
        'unchanged. Non-trivial = >= 6 tokens and (a symbol/number adjacency or a line-scoped construct); distinct by '
        '(source, config).'
        ' Part "names": programs of 26-200 distinct identifiers from C02\'s population generator (underscore names, would-be generated names, glyph names) under the same oracle, incl. \'no two identifiers written as one\'. Every library minification is run twice on the same Lua object; if the second output differs it is the one judged.'
        " A number directly followed by a '.'-token in the OUTPUT that was not glued in the input counts as a fusion (Lua/PICO-8 take the dots into the numeral)."
        ' Part "strings": statements around generated string literals (every escape form - named, P8SCII, 1-3 digit decimal for the values 0..255 incl. 14 and 15, \\x, line continuation, \\z - directly followed by digits / hex letters / quotes; raw control and high bytes; long brackets of every level), through the library and `p8tool luamin`: the minifier re-writes a quoted string from its decoded value, so the value decoded from the output must equal the value decoded from the input.'
        ' Part "header_names": kept identifiers of the form __word__ alone on an indented line (9 statement shapes x 11 names) through luamin / file.to_file / build: the written .p8 must still hold the program.')
ASSUMPTIONS = ['lexical rules are represented by vlib/reflex.py (no Lua/PICO-8 binary in the sandbox)',
               'renaming injectivity and reserved names are C02\'s clauses; here only "one function"',
               'number spelling is compared by value']
LEVEL_TEXT = ('Exploration: grammar-based programs and a systematic token-adjacency table minified through the library '
              'and the CLI; the output is judged by an independent lexer, not by picotool\'s own (which re-reads glued '
              'tokens "fine").')
LEVEL_NOTE = 'Trusted: vlib/reflex.py, vlib/luagen.py (self-checked per case), vlib/reffmt.py for reading CLI output.'
TECHNIQUE = 'grammar-based generation + systematic adjacency table; differential token-sequence oracle with a reference lexer'

CONFIGS = ('default', 'keep_all', 'keep_file')


# ---------------------------------------------------------------- shared helpers (also used by C02/C19)

def minify_lib(chunks, args):
    from pico8.lua import lua as plua
    from vlib import prelude
    prelude.lua()
    l = plua.Lua.from_lines(list(chunks), version=8)
    out = b''.join(l.to_lines(writer_cls=plua.LuaMinifyTokenWriter, writer_args=args))
    # the same object minified once more (a tool that measures, then writes - as the .p8 writer does): if that differs
    # from the first output it is the one handed to the oracle
    out2 = b''.join(l.to_lines(writer_cls=plua.LuaMinifyTokenWriter, writer_args=dict(args)))
    return l, (out if out2 == out else out2)


def scoped_ranges(kept):
    """[(i, j)] ordinal ranges of outermost line-scoped constructs in the intended token list."""
    out = []
    start = None
    for k, t in enumerate(kept):
        if t.scope_start:
            start = k
        if t.scope_end and start is not None:
            out.append((start, k))
            start = None
    return out


def compare_tokens(src, out, case, keep_all=False, ranges=(), what='luamin'):
    """Core C01 oracle on source text and minified text. Returns (ref_in, ref_out, mapping)."""
    ref_in = reflex.lex(src)
    sig_in = reflex.significant(ref_in)
    try:
        ref_out = reflex.lex(out)
    except reflex.Malformed as e:
        raise Violation('%s output does not lex: %s -- input %s -- output %s'
                        % (what, e, show(src, 160), show(out, 160)), case, 'relex')
    sig_out = reflex.significant(ref_out)
    mapping = {}
    back = {}
    n = min(len(sig_in), len(sig_out))
    for k in range(n):
        a, b = sig_in[k], sig_out[k]
        ctx = 'token %d of input %s -- output %s' % (k, show(src, 140), show(out, 140))
        if a.kind != b.kind:
            raise Violation('%s turned %s %s into %s %s (%s)'
                            % (what, a.kind, show(a.text, 30), b.kind, show(b.text, 30), ctx), case, 'kind')
        if a.kind in ('keyword', 'symbol'):
            if a.text != b.text:
                raise Violation('%s changed %s %s into %s (%s)' % (what, a.kind, show(a.text), show(b.text), ctx),
                                case, 'spelling')
        elif a.kind == 'number':
            if a.value != b.value:
                raise Violation('%s changed number %s into %s (%s)' % (what, show(a.text), show(b.text), ctx),
                                case, 'number')
        elif a.kind == 'string':
            if a.value != b.value:
                raise Violation('%s changed string %s (value %s) into %s (value %s) (%s)'
                                % (what, show(a.text, 40), show(a.value, 40), show(b.text, 40), show(b.value, 40), ctx),
                                case, 'string')
        else:
            ia = a.value if a.kind == 'label' else a.text
            ib = b.value if b.kind == 'label' else b.text
            if keep_all and ia != ib:
                raise Violation('%s with keep-all-names renamed %s to %s (%s)' % (what, show(ia), show(ib), ctx),
                                case, 'keep-all')
            if mapping.setdefault(ia, ib) != ib:
                raise Violation('%s renamed %s both to %s and to %s (%s)'
                                % (what, show(ia), show(mapping[ia]), show(ib), ctx), case, 'rename-function')
            if back.setdefault(ib, ia) != ia:
                # two different identifiers written as one: a different program (details are C02's business)
                raise Violation('%s writes the different identifiers %s and %s both as %s (%s)'
                                % (what, show(back[ib]), show(ia), show(ib), ctx), case, 'rename-collision')
    if len(sig_in) != len(sig_out):
        k = n
        extra = sig_out[k] if len(sig_out) > k else sig_in[k]
        raise Violation('%s output has %d significant tokens, input has %d (first unmatched: %s) -- input %s -- '
                        'output %s' % (what, len(sig_out), len(sig_in), show(extra.text, 30), show(src, 160),
                                       show(out, 160)), case, 'count')
    # A numeral directly followed by a '.' (as in `1.5..s`): picotool's dialect - and REFLEX with it - ends the numeral
    # before a `..`, but Lua's and PICO-8's own lexers take the dots into the numeral (malformed number).  Source that
    # was written that way is the author's business; the minifier must not CREATE the adjacency.
    def glued_dot(ref):
        out = set()
        k = -1
        for i, t in enumerate(ref):
            if t.kind in reflex.SIGNIFICANT:
                k += 1
                if t.kind == 'number' and i + 1 < len(ref) and ref[i + 1].text[:1] == b'.':
                    out.add(k)
        return out
    new_glue = glued_dot(ref_out) - glued_dot(ref_in)
    if new_glue:
        k = min(new_glue)
        raise Violation('%s writes the number %s directly in front of %s: Lua and PICO-8 read the dots as part of the '
                        'numeral (tokens fused) -- input %s -- output %s'
                        % (what, show(sig_out[k].text), show(sig_out[k + 1].text if k + 1 < len(sig_out) else b''),
                           show(src, 140), show(out, 140)), case, 'number-dot-fused')
    # line-scoped constructs
    pos_out = [k for k, t in enumerate(ref_out) if t.kind in reflex.SIGNIFICANT]
    for (i, j) in ranges:
        for k in range(pos_out[i], pos_out[j]):
            if ref_out[k].kind == 'newline':
                raise Violation('%s broke a line-scoped construct (tokens %d..%d %s ... %s): line break inside -- '
                                'input %s -- output %s' % (what, i, j, show(sig_in[i].text), show(sig_in[j].text),
                                                           show(src, 160), show(out, 160)), case, 'scope-inside')
        k = pos_out[j] + 1
        while k < len(ref_out) and ref_out[k].kind in ('space', 'comment'):
            k += 1
        if k < len(ref_out) and ref_out[k].kind != 'newline':
            raise Violation('%s joined the line of a line-scoped construct (ending at token %d %s) with what '
                            'followed it (%s) -- input %s -- output %s'
                            % (what, j, show(sig_in[j].text), show(ref_out[k].text, 20), show(src, 160),
                               show(out, 160)), case, 'scope-after')
    # comments: only leading ones may survive
    seen_sig = False
    ncomm = 0
    for t in ref_out:
        if t.kind in reflex.SIGNIFICANT:
            seen_sig = True
        elif t.kind == 'comment':
            ncomm += 1
            if seen_sig:
                raise Violation('%s output has a comment after code: %s -- output %s'
                                % (what, show(t.text, 40), show(out, 160)), case, 'comment')
    if ncomm > 2:
        raise Violation('%s output keeps %d comments' % (what, ncomm), case, 'comment')
    return ref_in, ref_out, mapping


def check_token_count(l_in, out, case, what='luamin'):
    from pico8.lua import lua as plua
    try:
        l_out = plua.Lua.from_lines([out], version=8)
    except Exception as e:
        raise Violation('%s output is rejected by picotool itself: %r -- %s' % (what, e, show(out, 200)), case, 'reparse')
    a, b = l_in.get_token_count(), l_out.get_token_count()
    if a != b:
        raise Violation('token count changed from %d to %d by %s -- output %s' % (a, b, what, show(out, 200)),
                        case, 'token-count')


def keep_file_content(ch, names):
    """A keep-names file: subset of the program's names + noise, comments, blank/padded lines, CRLF."""
    lines = []
    keep = set()
    for n in names:
        if ch.chance(110):
            keep.add(n)
    for n in (b'a', b'ba', b'zz_unused', b'print', b'e'):
        if ch.chance(50):
            keep.add(n)
    nl = b'\r\n' if ch.chance(50) else b'\n'
    if ch.chance(128):
        lines.append(b'# names to keep')
    for n in sorted(keep):
        pad = ch.pick([b'', b'', b' ', b'\t'])
        lines.append(pad + n + ch.pick([b'', b'', b'  ']))
        if ch.chance(40):
            lines.append(b'')
        if ch.chance(30):
            lines.append(b'  # ' + n)
    body = nl.join(lines)
    if ch.chance(200):
        body += nl
    return body, keep


def names_of(src):
    out = []
    for t in reflex.lex(src):
        if t.kind == 'name' and t.text not in out:
            out.append(t.text)
        elif t.kind == 'label' and t.value not in out:
            out.append(t.value)
    return out


def run_case(src, config, keep_body, ranges, case, via='lib', chunked=False):
    """Minify src under config through `via`; apply the C01 oracle. Returns (ref_in, ref_out, mapping).
    Half of the keep-file cases write the names to ONE path per process, rewritten for every case (a names file
    edited between two runs of one process); the file is removed after the case."""
    stable_kf = None
    if config == 'keep_file' and len(keep_body) % 2 == 0:
        stable_kf = os.path.join(tempfile.gettempdir(), 'c01_keep_%d.txt' % os.getpid())
    try:
        return _run_case(src, config, keep_body, ranges, case, via, chunked, stable_kf)
    finally:
        if stable_kf is not None:
            try:
                os.unlink(stable_kf)
            except OSError:
                pass


def _run_case(src, config, keep_body, ranges, case, via, chunked, stable_kf):
    from pico8 import tool
    with tempfile.TemporaryDirectory(prefix='c01_') as td:
        args = {}
        cli = []
        if config == 'keep_all':
            args['keep_all_names'] = True
            cli.append('--keep-all-names')
        elif config == 'keep_file':
            kf = stable_kf or os.path.join(td, 'keep.txt')
            with open(kf, 'wb') as fh:
                fh.write(keep_body)
            args['keep_names_from_file'] = kf
            cli += ['--keep-names-from-file', kf]
        if via == 'lib':
            chunks = [src]
            if chunked:
                chunks = [ln + b'\n' for ln in src.split(b'\n')]
                chunks[-1] = chunks[-1][:-1]
                chunks = [c for c in chunks if c]
            try:
                l_in, out = minify_lib(chunks, args)
            except Exception as e:
                raise Violation('minifying a valid program raised %r -- %s' % (e, show(src, 200)), case, 'raises')
            res = compare_tokens(src, out, case, keep_all=(config == 'keep_all'), ranges=ranges)
            check_token_count(l_in, out, case)
            return res
        if via == 'file_p8':
            from pico8.game import file as pfile
            from pico8.lua import lua as plua
            from vlib import cartgen
            try:
                g = cartgen.make_game(bytes(0x4300), code=src)
                outp = os.path.join(td, 'out.p8')
                pfile.to_file(g, outp, lua_writer_cls=plua.LuaMinifyTokenWriter, lua_writer_args=args)
            except Exception as e:
                raise Violation('writing a minified .p8 through file.to_file raised %r -- %s' % (e, show(src, 200)),
                                case, 'raises')
            out = reffmt.read_written(open(outp, 'rb').read(), case)['code']
            return compare_tokens(src, out, case, keep_all=(config == 'keep_all'), ranges=ranges,
                                  what='file.to_file(.p8, LuaMinifyTokenWriter)')
        if via == 'luamin_two_carts':
            # `p8tool luamin [options] cart1 cart2`: options must apply to every cart of the invocation
            p1, p2 = os.path.join(td, 'first.p8'), os.path.join(td, 'second.p8')
            with open(p1, 'wb') as fh:
                fh.write(reffmt.write_p8(8, b'-- first\nwarmup_name=1 other_name=warmup_name\n', bytes(0x4300)))
            with open(p2, 'wb') as fh:
                fh.write(reffmt.write_p8(8, src, bytes(0x4300)))
            try:
                rc = tool.main(['luamin'] + cli + [p1, p2])
            except Exception as e:
                raise Violation('`p8tool luamin` on two carts raised %r -- %s' % (e, show(src, 200)), case, 'cli-raises')
            outp = os.path.join(td, 'second_fmt.p8')
            if rc != 0 or not os.path.exists(outp):
                raise Violation('`p8tool luamin` on two carts returned %r / wrote no second_fmt.p8' % rc, case, 'cli')
            out = reffmt.read_written(open(outp, 'rb').read(), case)['code']
            return compare_tokens(src, out, case, keep_all=(config == 'keep_all'), ranges=ranges,
                                  what='`p8tool luamin` (second of two carts)')
        if via in ('luamin_p8', 'luamin_png'):
            ext = '.p8' if via == 'luamin_p8' else '.p8.png'
            path = os.path.join(td, 'cart' + ext)
            if ext == '.p8':
                data = reffmt.write_p8(8, src, bytes(0x4300))
            else:
                from checks import c04
                data = reffmt.write_p8png(c04.empty_label_rows(), bytes(0x4300), src, 8)
            with open(path, 'wb') as fh:
                fh.write(data)
            try:
                rc = tool.main(['luamin'] + cli + [path])
            except Exception as e:
                raise Violation('`p8tool luamin` raised %r -- %s' % (e, show(src, 200)), case, 'cli-raises')
            outp = os.path.join(td, 'cart_fmt' + ext)
            if rc != 0 or not os.path.exists(outp):
                raise Violation('`p8tool luamin` returned %r / wrote no %s' % (rc, os.path.basename(outp)), case, 'cli')
            raw = open(outp, 'rb').read()
            if ext == '.p8':
                out = reffmt.read_written(raw, case)['code']
            else:
                r = reffmt.read_written(raw, case, png=True)
                out = reffmt.strip_shim(r['code']) if r['code_kind'] == 'compressed' else r['code']
            src_in = src if ext == '.p8' else src
            return compare_tokens(src_in, out, case, keep_all=(config == 'keep_all'), ranges=ranges,
                                  what='`p8tool luamin` (%s)' % ext)
        if via == 'build':
            lua_path = os.path.join(td, 'main.lua')
            with open(lua_path, 'wb') as fh:
                fh.write(src)
            outp = os.path.join(td, 'out.p8')
            try:
                rc = tool.main(['build', outp, '--lua', lua_path, '--lua-minify'] + cli)
            except Exception as e:
                raise Violation('`p8tool build --lua-minify` raised %r -- %s' % (e, show(src, 200)), case, 'cli-raises')
            if rc != 0 or not os.path.exists(outp):
                raise Violation('`p8tool build --lua-minify` returned %r' % rc, case, 'cli')
            out = reffmt.read_written(open(outp, 'rb').read(), case)['code']
            return compare_tokens(src, out, case, keep_all=(config == 'keep_all'), ranges=ranges,
                                  what='`p8tool build --lua-minify`')
    raise ValueError(via)


# ---------------------------------------------------------------- generated programs

def build_program(seed, avoid=()):
    ch = Choices(seed)
    mode = ch.pick(['free', 'free', 'minimal', 'minimal', 'lines'])
    cfg = luagen.Cfg(max_depth=2 + ch.below(2), max_stmts=2 + ch.below(5), budget=50 + ch.below(100), avoid=avoid)
    model, tags = luagen.gen_program(ch, cfg)
    toks, stmts = luagen.render(model, ch)
    lay = luagen.layout(toks, ch, mode, allow_cr=True)
    config = ch.pick(CONFIGS)
    keep_body, keep = (b'', set())
    if config == 'keep_file':
        keep_body, keep = keep_file_content(ch, [t.text for t in toks if t.kind == 'name'])
    v = ch.below(40)
    via = 'lib'
    if v == 0:
        via = 'luamin_p8'
    elif v == 1:
        via = 'luamin_png'
    elif v == 2:
        via = 'build'
    elif v in (3, 4):
        via = 'file_p8'
    elif v == 5:
        via = 'luamin_two_carts'
    chunked = ch.chance(64)
    return lay, mode, config, keep_body, via, chunked, tags


def adjacency_labels(ref_in):
    labs = set()
    sig = reflex.significant(ref_in)
    for a, b in zip(sig, sig[1:]):
        if a.kind in ('symbol', 'number') and b.kind in ('symbol', 'number', 'string'):
            labs.add('adj_symnum')
        if a.kind == 'symbol' and b.kind == 'symbol':
            labs.add('adj_sym_sym')
        if a.kind == 'number' and b.kind == 'symbol' and b.text.startswith(b'.'):
            labs.add('adj_number_dot')
        if a.text == b'-' and b.text == b'-':
            labs.add('adj_minus_minus')
        if a.text == b'[' and b.kind == 'string' and b.quote.startswith(b'['):
            labs.add('adj_bracket_longstring')
    return labs


def part_programs(ctx):
    def body(seed):
        lay, mode, config, keep_body, via, chunked, tags = build_program(seed, ctx.open_findings)
        if luagen.verify(lay) is None:
            ctx.stats.exclude('generator_selfcheck_failed')
            return
        src = lay.src
        if via != 'lib' and (b'#include' in src or b'\x00' in src):
            via = 'lib'
        if via == 'luamin_png' and b'\r' in src:
            via = 'lib'      # the .p8.png reader turns CR into a blank (documented normalisation): another program
        case = {'seed': bytes(seed), 'source': src, 'config': config, 'keep': keep_body, 'via': via}
        ranges = scoped_ranges(lay.kept)
        ref_in, _o, _m = run_case(src, config, keep_body, ranges, case, via, chunked)
        labs = adjacency_labels(ref_in) | {'cfg_' + config, 'via_' + via, 'mode_' + mode}
        if ranges:
            labs.add('line_scoped')
        nsig = len(reflex.significant(ref_in))
        nontrivial = nsig >= 6 and ('adj_symnum' in labs or 'line_scoped' in labs)
        ctx.stats.case(src + config.encode(), nontrivial,
                       {'source': show(src, 140), 'config': config, 'via': via}, sorted(labs))
    ctx.hyp('programs', st.binary(min_size=640, max_size=640), body, max_examples=500 if ctx.quick else 8000)


# ---------------------------------------------------------------- systematic adjacency table

LEFT_OPERANDS = [b'a', b'1', b'5.', b'.5', b'0x1f', b'0b1', b'1e3', b'"s"', b"'s'", b'[[s]]', b'...', b'nil', b'true',
                 b't[1]', b'f()', b'(a)', b'{}', b'a.b', b'\x8e', b'endx', b'2E-2', b'0x.8', b'07']
RIGHT_OPERANDS = [b'a', b'1', b'.5', b'5.', b'0x1f', b'"s"', b"'s'", b'[[s]]', b'[=[s]=]', b'...', b'nil', b'not a',
                  b'-a', b'- -a', b'-1', b'-.5', b'#t', b'~a', b'@a', b'%a', b'$a', b'(a)', b'{}', b'f()', b'\x8e',
                  b'function() end', b'.5e1', b'0b.1', b'e', b'e5', b'x0']
BINOPS = [b'+', b'-', b'*', b'/', b'%', b'^', b'..', b'==', b'~=', b'!=', b'<', b'>', b'<=', b'>=', b'and', b'or',
          b'&', b'|', b'^^', b'<<', b'>>', b'>>>', b'<<>', b'>><', b'\\']
INDEXERS = [b'[[k]]', b'[=[k]=]', b'"k"', b'1', b'-1', b'a', b'#t', b'...', b'.5', b'{}', b'(a)']


def table_sources():
    """Statement templates realising every ordered pair of adjacent token kinds the grammar allows."""
    seen = set()

    def emit(s):
        if s not in seen:
            seen.add(s)
            return True
        return False
    for L in LEFT_OPERANDS:
        for op in BINOPS:
            for R in RIGHT_OPERANDS:
                for sp in (b' ', b''):
                    src = b'function f(...) x=' + L + sp + op + sp + R + b' end\n'
                    if emit(src):
                        yield src
    for op in BINOPS:
        for u in (b'-', b'not ', b'#', b'~', b'@', b'%', b'$'):
            for u2 in (b'', b'-', b'~', b'not '):
                src = b'x=a ' + op + b' ' + u + b' ' + u2 + b' b\n'
                if emit(src):
                    yield src
    for k in INDEXERS:
        for sp in (b'', b' '):
            for tmpl in (b't[%s]=1\n', b'x=t[%s]\n', b'x={[%s]=1}\n', b'function f(...) x=t[%s] end\n'):
                src = tmpl % (sp + k + sp)
                if emit(src):
                    yield src
    for aop in (b'=', b'+=', b'-=', b'*=', b'/=', b'%=', b'..='):
        for R in RIGHT_OPERANDS:
            for sp in (b' ', b''):
                src = b'function f(...) x' + sp + aop + sp + R + b' end\n'
                if emit(src):
                    yield src
    for a in LEFT_OPERANDS:
        for b in (b'y=1', b'f()', b'::l::', b'local z', b'if a then end', b'(f)()', b'goto l', b'return', b'e=1'):
            sep = b' ;' if b.startswith(b'(') else b' '
            src = b'function g(...) x=' + a + sep + b + b' end\n'
            if emit(src):
                yield src
    # merge-prone neighbours with only a (dropped) comment, blanks or a line break between them
    merge_pairs = [(b'x=a -', b'-b'), (b'x=a -', b'-1'), (b'x=a- -', b'-b'), (b'x=t[', b'[[k]] ]'), (b'x={[', b'[[k]] ]=1}'),
                   (b'x=1', b'..s'), (b'x=0x1f', b'..s'), (b'x=s..', b'.5'), (b'function f(...) x=s ..', b'... end'),
                   (b'x=5.', b'..s'), (b'x=a /', b'/ b c=1'), (b'x=1', b'e=2'), (b'x=0x1', b'f=2')]
    for left, right in merge_pairs:
        for sep in (b' ', b'--[[c]]', b' --[[c]] ', b' --[[c\nd]] ', b'\n', b' -- c\n', b'\t', b' --[[a]]--[[b]] '):
            if sep.strip() == b'' and b'/ b' in right:
                continue
            src = left + sep + right + b'\n'
            if emit(src):
                yield src
    for s in (b'f"s"', b"f's'", b'f[[s]]', b'f{}', b'f"a""b"', b'f[[a]][[b]]', b'f{}{}', b'a:m"s"', b'a:m[[s]]',
              b'?"s"', b'?[[s]]', b'?(a)', b'?{a}', b'x=f"s".."t"', b'x=#"s"', b'x=a.b.c', b'x=a . b', b'x=a...b',
              b'function f(...) x=... .. a end', b'function f(...) x=a .. ... end', b'function f(...) x={...} end',
              b'function f(a, ...) return ... end', b'x=1 .. 2', b'x=1. .. 2', b'x=.5 .. .5', b'x=a ..= b',
              b'for i=1,2 do end', b'for i=.5,5.,.5 do end', b'x=-1', b'x= - -1', b'x=- - -a', b'x=a- -1', b'x=a-- c\n',
              b'x=a--[[c]]-b', b'x=a//c\n', b'if (a) b=1', b'if (a) b=1 else c=2', b'if (a) ?"x"', b'if (a) return',
              b'x=a<<b>>c>>>d<<>e>><f', b'x=a^^b^c', b'x=a\\b', b'x=a~=b!=c', b'x=a<=b>=c==d', b'x=@a+%b+$c',
              b'::a:: ::b::', b'goto a ::a::', b'x=t[ [[k]] ]', b'x=t[ [==[k]==] ]', b'x={ [ [[k]] ]=1 }',
              b'x=a and b or not c', b'x=1and 2', b'x=a and1', b'x="a"and"b"', b'x=1or 2', b'x=0x1 or 0xf'):
        src = s + b'\n'
        if emit(src):
            yield src


def part_table(ctx):
    from pico8.lua import lua as plua
    n = 0
    for k, src in enumerate(table_sources()):
        if k % ctx.nshards != ctx.shard:
            continue
        ref = reflex.try_lex(src)
        if ref is None:
            ctx.stats.exclude('template_not_lexable')
            continue
        try:
            plua.Lua.from_lines([src], version=8)
        except Exception:
            ctx.stats.exclude('template_not_parseable')
            continue
        for config in (('default', 'keep_all') if (not ctx.quick or k % 5 == 0) else ('default',)):
            case = {'source': src, 'config': config, 'keep': b'', 'via': 'lib'}
            run_case(src, config, b'', [], case, 'lib')
            n += 1
        labs = adjacency_labels(ref)
        for lab in labs:
            ctx.stats.count(lab)
        ctx.stats.nontrivial.add(src)
    ctx.stats.evaluations += n
    ctx.stats.count('table_cases', n)
    ctx.stats.extra['exhaustive'] = True
    ctx.stats.samples.append({'adjacency_table': 'statement templates: every left operand x binary operator x right '
                              'operand (glued and spaced), unary chains, bracket/long-string indexers, assignment '
                              'operators, statement juxtapositions'})


def one_string(ch, allow_z):
    """A generated literal that REFLEX reads as exactly one string token (lexatoms.gen_string is a soup generator: a
    quote among the followers or a bracket inside a long string may end the literal early)."""
    for _ in range(6):
        s = lexatoms.gen_string(ch, allow_z)
        ref = reflex.try_lex(s)
        if ref is not None and len(ref) == 1 and ref[0].kind == 'string':
            return s
    return b'"\\0141"'


def string_program(ch, allow_z):
    """Statements around generated string literals (lexatoms.gen_string: every escape form next to every kind of
    follower, raw control and high bytes, long brackets of every level), in forms every Lua 5.2 parser accepts."""
    parts = []
    for _ in range(1 + ch.below(5)):
        k = ch.below(6)
        s = one_string(ch, allow_z)
        if k == 0:
            parts.append(b'x=' + s)
        elif k == 1:
            parts.append(b'f' + s)
        elif k == 2:
            parts.append(b't={' + s + b',[ ' + one_string(ch, allow_z) + b' ]=1}')   # `[[[` would open a long string
        elif k == 3:
            parts.append(b'if a==' + s + b' then b=' + s + b' end')
        elif k == 4:
            parts.append(b'a=' + s + b'..' + one_string(ch, allow_z))
        else:
            parts.append(b'print(' + s + b')')
        parts.append(ch.pick([b'\n', b'\r\n', b' ', b'\n\n', b' -- c\n', b';']))
    src = b''.join(parts)
    if ch.chance(60):
        src = src.rstrip(b'\r\n ')
    return src


def part_strings(ctx):
    """String literals of every spelling: the minifier re-writes quoted strings from their decoded value, so the value
    REFLEX decodes from the output must be the value it decodes from the input, byte for byte."""
    def body(seed):
        ch = Choices(seed)
        src = string_program(ch, allow_z='esc_z' not in ctx.open_findings)
        ref = reflex.try_lex(src)
        if ref is None:
            ctx.stats.exclude('string_program_not_lexable')
            return
        config = ch.pick(['default', 'default', 'keep_all'])
        via = 'lib' if (ch.below(12) or b'\x00' in src or b'#include' in src or b'__lua__' in src) else 'luamin_p8'   # as in part_programs
        case = {'source': src, 'config': config, 'keep': b'', 'via': via}
        run_case(src, config, b'', [], case, via)
        strs = [t for t in reflex.significant(ref) if t.kind == 'string']
        labs = ['string_program']
        if any(b'\\' in t.text for t in strs):
            labs.append('string_with_escape')
        if re.search(rb'\\[0-9]{1,3}[0-9a-fA-F]', src):
            labs.append('decimal_escape_before_digit')
        if re.search(rb'[\x00-\x08\x0b\x0c\x0e-\x1f][0-9]', src):
            labs.append('raw_control_byte_before_digit')
        ctx.stats.case(src + config.encode(), bool(strs) and len(labs) > 1, {'source': show(src, 140), 'config': config, 'via': via}, labs)
    ctx.hyp('strings', st.binary(min_size=200, max_size=200), body, max_examples=1500 if ctx.quick else 30000)


def part_names(ctx):
    """Programs with many distinct identifiers (26-200: generated names of one and two letters are reached), among them
    underscore names, names that look like generated ones and glyph names: the output must be the input modulo ONE
    renaming - two identifiers never written as one."""
    from checks import c02

    def body(seed):
        ch = Choices(seed)
        n = 26 + ch.below(40) if ch.chance(170) else 66 + ch.below(140)
        names = c02.gen_names(ch, n)
        for extra in (b'_', b'_a', b'__', b'a', b'aa'):
            if extra not in names and ch.chance(150):
                names[ch.below(len(names))] = extra
        src = c02.gen_program_text(ch, names)
        if not c02.fully_parsed(src):
            ctx.stats.exclude('not_parsed_to_the_end_by_this_tree')
            return
        config = ch.pick(CONFIGS)
        keep_body = b''
        if config == 'keep_file':
            keep_body, _k = c02.gen_keep(ch, names)
        via = ch.weighted([(200, 'lib'), (25, 'file_p8'), (15, 'luamin_p8')])
        case = {'source': src, 'config': config, 'keep': keep_body, 'via': via}
        _ri, _ro, mapping = run_case(src, config, keep_body, (), case, via)
        labs = ['many_names', 'cfg_' + config, 'via_' + via]
        if any(nm.startswith(b'_') for nm in mapping):
            labs.append('many_names_with_underscore_name')
        ctx.stats.case(src + config.encode(), len(mapping) >= 27, {'identifiers': len(mapping), 'config': config, 'via': via,
                                                                 'source': show(src, 100)}, labs)
    ctx.hyp('names', st.binary(min_size=2000, max_size=2000), body, max_examples=40 if ctx.quick else 400,
            shrink=not ctx.quick)


# identifiers of the form __word__ that end up alone on a line: at column 0 such a line reads as a section header in a
# .p8 file (in the input they are indented, which the format tells apart)
HEADER_NAMES = (b'__gfx__', b'__lua__', b'__label__', b'__map__', b'__sfx__', b'__music__', b'__gff__', b'__a__b__',
                b'__x__', b'__init__', b'__9__')
HEADER_NAME_SHAPES = (b'x=\n %s\ny=2\n', b'f(\n\t%s\n)\n', b'local v =\n  %s\nprint(v)\n', b'y = x +\n %s\nz=1\n',
                      b'%s = 1\nq=\n  %s\n', b' %s\n()\nw=3\n', b'  -- title\n  %s\n   .x=1\n', b'do return\n %s\nend\n',
                      b't={\n %s\n}\n')


def header_name_sources():
    for i, shape in enumerate(HEADER_NAME_SHAPES):
        for j, name in enumerate(HEADER_NAMES):
            if (i + j) % 3 == 0 or j < 2:
                yield shape.replace(b'%s', name), name


def part_header_names(ctx):
    """A kept identifier of the form __word__ alone on an output line must not come out at column 0 of a .p8 file."""
    k = 0
    for src, name in header_name_sources():
        for config in ('keep_all', 'keep_file', 'default'):
            for via in ('luamin_p8', 'file_p8', 'build', 'lib'):
                k += 1
                if k % ctx.nshards != ctx.shard or (config == 'default' and via != 'luamin_p8'):
                    continue
                keep_body = name + b'\n' if config == 'keep_file' else b''
                case = {'source': src, 'config': config, 'keep': keep_body, 'via': via}
                run_case(src, config, keep_body, (), case, via)
                ctx.stats.case(src + config.encode() + via.encode(), config != 'default',
                               {'source': show(src, 60), 'config': config, 'via': via} if k % 40 == 1 else None,
                               ['header_like_name_alone_on_a_line', 'cfg_' + config, 'via_' + via])


def parts(tier):
    if tier == 'quick':
        return [('programs', part_programs, 8), ('table', part_table, 6), ('names', part_names, 2),
                ('header_names', part_header_names, 1), ('strings', part_strings, 2)]
    return [('programs', part_programs, 9), ('table', part_table, 5), ('names', part_names, 2),
            ('header_names', part_header_names, 1), ('strings', part_strings, 3)]


def replay(case):
    src = case['source']
    ranges = []
    if 'seed' in case:
        lay = build_program(case['seed'])[0]
        if lay.src == src:
            ranges = scoped_ranges(lay.kept)
    run_case(src, case.get('config', 'default'), case.get('keep', b''), ranges, case, case.get('via', 'lib'))


def vacuity(total, tier):
    msgs = []
    for lab in ('adj_symnum', 'adj_sym_sym', 'adj_number_dot', 'adj_minus_minus', 'adj_bracket_longstring',
                'line_scoped', 'cfg_default', 'cfg_keep_all', 'cfg_keep_file', 'via_luamin_p8', 'via_luamin_png',
                'via_build', 'via_file_p8', 'via_luamin_two_carts', 'mode_minimal', 'many_names_with_underscore_name',
                'header_like_name_alone_on_a_line', 'string_with_escape', 'decimal_escape_before_digit',
                'raw_control_byte_before_digit'):
        if total.classes.get(lab, 0) < 3:
            msgs.append('class %s seen %d times' % (lab, total.classes.get(lab, 0)))
    if total.classes.get('table_cases', 0) < 30000:
        msgs.append('adjacency table has only %d cases' % total.classes.get('table_cases', 0))
    return msgs
