"""C17 - section accessors read back what was set and touch nothing else.

A Game built from generated memory is driven through histories of accessor calls; a plain
byte-level model written from the docstrings predicts every getter result and the complete
0x4300 bytes of cart memory after every step.
"""
import os

from hypothesis import strategies as st
from hypothesis.stateful import RuleBasedStateMachine, initialize, rule

from vlib.runner import Violation
from vlib.choices import Choices, expand
from vlib import cartgen

PROPERTY = 'C17'
LEVEL = 'exploration'
RULE = ('cases = histories (initial memory seed, list of accessor calls) run against a Game and a '
        'five-bytearray model; after every call the getter result, all 0x4300 bytes and the five region '
        'sizes are compared with the model and any exception from an in-contract call is a violation. '
        'Part "history" is a Hypothesis state machine over all 19 accessors; parts "edge_sprite" and '
        '"edge_map" enumerate edge placements for generated memory (set_sprite on every tile of the last '
        'column / last row / the corner with offsets 0..9 and data reaching 0..10 pixels past the edge; '
        'set_rect_tiles, get_rect_tiles, get_rect_pixels at x in {126,127}, y in {30,31,32,62,63} with '
        'sizes 1..3; get_sprite on last-column/last-row tiles with 1..3 tiles), each followed by a read '
        'of shared map rows. Non-trivial = the history has at least one write whose data extends '
        'strictly past the right or bottom edge of the sheet/map and at least one map operation touching '
        'rows >= 32; distinct by (seed, operations).'
        ' A twin cart made beforehand with Section.from_bytes(section.to_bytes()) must keep its memory under every edit of the first cart.'
        ' Rectangle/sprite data is passed as list, tuple, bytearray, generator of rows, list of iterators or reversed(...) (documented type: iterable of iterables).'
        " Rows also come as array('H'); op edit_sprite reads a sprite region, changes one pixel of the returned rows in place and writes the rows back to the same or another sprite id.")
ASSUMPTIONS = [
    'memory map gfx 0x0000, map 0x2000, gff 0x3000, music 0x3100, sfx 0x3200 (PICO-8 manual); sprite-sheet '
    'pixel (x,y) is the low nibble of gfx[y*64+x//2] for even x and the high nibble for odd x (gfx.py module '
    'docstring); map row y>=32 is gfx[4096+(y-32)*128+x] (map.py module docstring)',
    'in-contract arguments: sprite/flag ids 0-255, sfx/music ids 0-63, notes 0-31, channels 0-3, map x 0-127, '
    'y 0-63, offsets >= 0, sizes >= 1 (get_rect_* may reach past the 64th row: off-edge tiles are 0, as documented), pixel values 0-15 or gfx.TRANSPARENT '
    '(16), tile values and flags 0-255, sfx property values within their documented ranges',
    'music flag bits follow get_properties/set_properties and the .p8 reader (bit 7 of byte 0 = begin, byte 1 '
    '= end, byte 2 = stop); the music.py module docstring lists them in the opposite order',
    'return values of setters are unspecified and ignored; getter results are compared as lists of lists '
    '(pixel/tile rectangles), ints, or tuples',
]
LEVEL_TEXT = ('Exploration: generated accessor histories plus a systematic enumeration of edge placements, '
              'each step compared with a byte-level model over the whole cart memory. No absence proof: the '
              'space of histories is sampled, only the listed edge placements are enumerated.')
LEVEL_NOTE = ('Trusted: the memory-layout facts listed in the assumptions; Game.make_empty_game wiring Map to '
              'Gfx; the region _data bytearrays as the observation point.')
TECHNIQUE = ('Hypothesis RuleBasedStateMachine (model-based stateful testing) + systematic edge-placement '
             'enumeration, both against a five-bytearray reference model')

T = 16  # gfx.TRANSPARENT (documented public constant)
REGION_NAMES = ('gfx', 'map', 'gff', 'music', 'sfx')
REGION_SIZES = tuple(hi - lo for _n, lo, hi in cartgen.REGIONS)
NOTHING = object()

# ---------------------------------------------------------------------------------------
# development aid: steer generators around defect shapes (default: nothing avoided)
#   VERIF_C17_AVOID=sprite_edge,rect_bottom ./check C17
# tags: sprite_right / sprite_bottom  - sprite data is cut at the right / bottom sheet edge
#       sprite_edge                   - both of the above
#       sprite_x128 / sprite_y128     - only the first off-sheet column / row is made TRANSPARENT
#       rect_right / rect_bottom      - set_rect_tiles data is cut at column 127 / row 63
#       rect_edge                     - both of the above
# The same tags are honoured when they appear as `tags=` of a still-failing known finding.
# ---------------------------------------------------------------------------------------
AVOID_TAGS = ('sprite_right', 'sprite_bottom', 'sprite_edge', 'sprite_x128', 'sprite_y128',
              'rect_right', 'rect_bottom', 'rect_edge')
# classes that cannot be generated while a tag is active (vacuity does not demand them)
SUPPRESSES = {'sprite_right': ('sprite_cross_right', 'sprite_cross_right_by1', 'sprite_cross_right_many'),
              'sprite_bottom': ('sprite_cross_bottom', 'sprite_cross_bottom_by1', 'sprite_cross_bottom_many'),
              'rect_right': ('rect_cross_right',),
              'rect_bottom': ('rect_cross_bottom',)}


def avoid_set(open_findings=()):
    tags = {t.strip() for t in os.environ.get('VERIF_C17_AVOID', '').split(',') if t.strip()}
    unknown = sorted(t for t in tags if t not in AVOID_TAGS)
    if unknown:
        raise ValueError('VERIF_C17_AVOID: unknown tag(s) %r (known: %s)' % (unknown, ', '.join(AVOID_TAGS)))
    tags |= {t for t in open_findings if t in AVOID_TAGS}
    if 'sprite_edge' in tags:
        tags |= {'sprite_right', 'sprite_bottom'}
    if 'rect_edge' in tags:
        tags |= {'rect_right', 'rect_bottom'}
    return frozenset(tags)


def steer(op, avoid, stats=None):
    """Return `op` changed so that it stays clear of the avoided shapes."""
    if not avoid:
        return op
    name = op[0]
    if name == 'set_sprite':
        _n, sid, rows, xo, yo, wrap = op
        x0, y0 = (sid % 16) * 8 + xo, (sid // 16) * 8 + yo
        new = [list(r) for r in rows]
        if 'sprite_right' in avoid:
            new = [r[:max(0, 128 - x0)] for r in new]
        if 'sprite_bottom' in avoid:
            new = new[:max(0, 128 - y0)]
        if 'sprite_x128' in avoid:
            for r in new:
                if 0 <= 128 - x0 < len(r):
                    r[128 - x0] = T
        if 'sprite_y128' in avoid and 0 <= 128 - y0 < len(new):
            new[128 - y0] = [T] * len(new[128 - y0])
        if new != [list(r) for r in rows]:
            if stats is not None:
                stats.exclude('steered:set_sprite')
            return ['set_sprite', sid, new, xo, yo, wrap]
        return op
    if name == 'set_rect_tiles':
        _n, rows, x, y, wrap = op
        new = [list(r) for r in rows]
        if 'rect_right' in avoid:
            new = [r[:128 - x] for r in new]
        if 'rect_bottom' in avoid:
            new = new[:64 - y]
        if new != [list(r) for r in rows]:
            if stats is not None:
                stats.exclude('steered:set_rect_tiles')
            return ['set_rect_tiles', new, x, y, wrap]
    return op


# ---------------------------------------------------------------------------------------
# the model: five plain bytearrays, semantics written from the docstrings
# ---------------------------------------------------------------------------------------

class Model:
    def __init__(self, mem):
        self.gfx = bytearray(mem[0x0000:0x2000])
        self.map = bytearray(mem[0x2000:0x3000])
        self.gff = bytearray(mem[0x3000:0x3100])
        self.music = bytearray(mem[0x3100:0x3200])
        self.sfx = bytearray(mem[0x3200:0x4300])

    def regions(self):
        return [self.gfx, self.map, self.gff, self.music, self.sfx]

    # sprite sheet: 128 x 128 pixels, two per byte, left pixel in the low nibble
    def px(self, x, y):
        b = self.gfx[y * 64 + x // 2]
        return (b >> 4) if x % 2 else (b & 15)

    def set_px(self, x, y, v):
        i = y * 64 + x // 2
        if x % 2:
            self.gfx[i] = (self.gfx[i] & 0x0f) | (v << 4)
        else:
            self.gfx[i] = (self.gfx[i] & 0xf0) | v

    # map: 128 x 64 cells, rows 32..63 in the lower half of gfx memory
    def cell(self, x, y):
        return self.map[y * 128 + x] if y < 32 else self.gfx[4096 + (y - 32) * 128 + x]

    def set_cell(self, x, y, v):
        if y < 32:
            self.map[y * 128 + x] = v
        else:
            self.gfx[4096 + (y - 32) * 128 + x] = v

    def note_word(self, sid, n):
        i = sid * 68 + n * 2
        return self.sfx[i] | (self.sfx[i + 1] << 8)

    def set_note_word(self, sid, n, w):
        i = sid * 68 + n * 2
        self.sfx[i] = w & 0xff
        self.sfx[i + 1] = w >> 8

    def rect_tiles(self, x, y, w, h):
        return [[self.cell(cx, cy) if cx < 128 and cy < 64 else 0 for cx in range(x, x + w)]
                for cy in range(y, y + h)]


def apply_model(m, op):
    """Apply `op` to the model; returns the predicted getter result or NOTHING for setters."""
    name = op[0]
    a = op[1:]
    if name == 'set_sprite':
        sid, rows, xo, yo, _wrap = a
        x0 = (sid % 16) * 8 + xo
        y0 = (sid // 16) * 8 + yo
        for j, row in enumerate(rows):
            for i, v in enumerate(row):
                if v == T or x0 + i >= 128 or y0 + j >= 128:
                    continue  # transparent keeps the pixel; excess right of / below the sheet is clipped
                m.set_px(x0 + i, y0 + j, v)
        return NOTHING
    if name == 'get_sprite':
        sid, tw, th = a
        x0 = (sid % 16) * 8
        y0 = (sid // 16) * 8
        return [[m.px(x, y) if x < 128 and y < 128 else 0 for x in range(x0, x0 + tw * 8)]
                for y in range(y0, y0 + th * 8)]
    if name == 'edit_sprite':
        sid, tw, th, r, c, v, dst = a
        x0 = (sid % 16) * 8
        y0 = (sid // 16) * 8
        rows = [[m.px(x, y) if x < 128 and y < 128 else 0 for x in range(x0, x0 + tw * 8)]
                for y in range(y0, y0 + th * 8)]
        rows[r][c] = v                      # one pixel of one row; the rows of a result are independent
        dx, dy = (dst % 16) * 8, (dst // 16) * 8
        for j, row in enumerate(rows):
            for i, pv in enumerate(row):
                if dx + i < 128 and dy + j < 128:
                    m.set_px(dx + i, dy + j, pv)
        return NOTHING
    if name == 'set_cell':
        m.set_cell(a[0], a[1], a[2])
        return NOTHING
    if name == 'get_cell':
        return m.cell(a[0], a[1])
    if name == 'set_rect_tiles':
        rows, x, y, _wrap = a
        for j, row in enumerate(rows):
            for i, v in enumerate(row):
                if x + i >= 128 or y + j >= 64:
                    continue  # remainder off the edge of the map is discarded
                m.set_cell(x + i, y + j, v)
        return NOTHING
    if name == 'get_rect_tiles':
        return m.rect_tiles(*a)
    if name == 'get_rect_pixels':
        out = []
        for trow in m.rect_tiles(*a):
            for py in range(8):
                r = []
                for t in trow:
                    if t == 0:
                        r.extend([0] * 8)  # tile 0 renders empty, as do off-edge tiles (returned as 0)
                    else:
                        tx, ty = (t % 16) * 8, (t // 16) * 8
                        r.extend(m.px(tx + i, ty + py) for i in range(8))
                out.append(r)
        return out
    if name == 'get_flags':
        return m.gff[a[0]] & a[1]
    if name == 'set_flags':
        m.gff[a[0]] |= a[1]
        return NOTHING
    if name == 'clear_flags':
        m.gff[a[0]] &= 0xff ^ a[1]
        return NOTHING
    if name == 'reset_flags':
        m.gff[a[0]] = a[1]
        return NOTHING
    if name == 'get_note':
        w = m.note_word(a[0], a[1])
        return (w & 63, ((w >> 6) & 7) | ((w >> 15) << 3), (w >> 9) & 7, (w >> 12) & 7)
    if name == 'set_note':
        sid, n, pitch, waveform, volume, effect = a
        w = m.note_word(sid, n)
        if pitch is not None:
            w = (w & ~0x003f) | pitch
        if waveform is not None:
            w = (w & ~0x81c0) | ((waveform & 7) << 6) | ((waveform >> 3) << 15)
        if volume is not None:
            w = (w & ~0x0e00) | (volume << 9)
        if effect is not None:
            w = (w & ~0x7000) | (effect << 12)
        m.set_note_word(sid, n, w)
        return NOTHING
    if name == 'sfx_get_properties':
        return tuple(m.sfx[a[0] * 68 + 64:a[0] * 68 + 68])
    if name == 'sfx_set_properties':
        for k, v in enumerate(a[1:5]):
            if v is not None:
                m.sfx[a[0] * 68 + 64 + k] = v
        return NOTHING
    if name == 'get_channel':
        v = m.music[a[0] * 4 + a[1]] & 0x7f
        return None if v > 63 else v
    if name == 'set_channel':
        mid, chan, pat = a
        i = mid * 4 + chan
        m.music[i] = (m.music[i] & 0x80) | (pat if pat is not None else 0x41 + chan)
        return NOTHING
    if name == 'music_get_properties':
        return tuple(bool(m.music[a[0] * 4 + k] & 0x80) for k in range(3))
    if name == 'music_set_properties':
        for k, v in enumerate(a[1:4]):
            if v is not None:
                i = a[0] * 4 + k
                m.music[i] = (m.music[i] & 0x7f) | (0x80 if v else 0)
        return NOTHING
    raise AssertionError('unknown op %r' % (name,))


# ---------------------------------------------------------------------------------------
# contract guard (a harness bug, not a picotool failure, if it ever fires)
# ---------------------------------------------------------------------------------------

def _isint(v, lo, hi):
    return isinstance(v, int) and not isinstance(v, bool) and lo <= v <= hi


def _opt(v, lo, hi):
    return v is None or _isint(v, lo, hi)


def assert_contract(op):
    name, a = op[0], op[1:]
    ok = False
    if name == 'set_sprite':
        ok = (_isint(a[0], 0, 255) and _isint(a[2], 0, 1 << 20) and _isint(a[3], 0, 1 << 20) and
              all(_isint(v, 0, 16) for r in a[1] for v in r) and a[4] in WRAPS)
    elif name == 'get_sprite':
        ok = _isint(a[0], 0, 255) and _isint(a[1], 1, 1 << 10) and _isint(a[2], 1, 1 << 10)
    elif name == 'edit_sprite':
        ok = (_isint(a[0], 0, 255) and _isint(a[1], 1, 32) and _isint(a[2], 1, 32) and _isint(a[3], 0, a[2] * 8 - 1) and
              _isint(a[4], 0, a[1] * 8 - 1) and _isint(a[5], 0, 15) and _isint(a[6], 0, 255))
    elif name == 'set_cell':
        ok = _isint(a[0], 0, 127) and _isint(a[1], 0, 63) and _isint(a[2], 0, 255)
    elif name == 'get_cell':
        ok = _isint(a[0], 0, 127) and _isint(a[1], 0, 63)
    elif name == 'set_rect_tiles':
        ok = (all(_isint(v, 0, 255) for r in a[0] for v in r) and _isint(a[1], 0, 127) and
              _isint(a[2], 0, 63) and a[3] in WRAPS)
    elif name in ('get_rect_tiles', 'get_rect_pixels'):
        ok = (_isint(a[0], 0, 127) and _isint(a[1], 0, 63) and _isint(a[2], 1, 1 << 10) and
              _isint(a[3], 1, 128))
    elif name in ('get_flags', 'set_flags', 'clear_flags', 'reset_flags'):
        ok = _isint(a[0], 0, 255) and _isint(a[1], 0, 255)
    elif name == 'get_note':
        ok = _isint(a[0], 0, 63) and _isint(a[1], 0, 31)
    elif name == 'set_note':
        ok = (_isint(a[0], 0, 63) and _isint(a[1], 0, 31) and _opt(a[2], 0, 63) and _opt(a[3], 0, 15) and
              _opt(a[4], 0, 7) and _opt(a[5], 0, 7))
    elif name in ('sfx_get_properties', 'music_get_properties'):
        ok = _isint(a[0], 0, 63)
    elif name == 'sfx_set_properties':
        ok = (_isint(a[0], 0, 63) and _opt(a[1], 0, 1) and _opt(a[2], 0, 255) and _opt(a[3], 0, 63) and
              _opt(a[4], 0, 63))
    elif name == 'get_channel':
        ok = _isint(a[0], 0, 63) and _isint(a[1], 0, 3)
    elif name == 'set_channel':
        ok = _isint(a[0], 0, 63) and _isint(a[1], 0, 3) and _opt(a[2], 0, 63)
    elif name == 'music_set_properties':
        ok = _isint(a[0], 0, 63) and all(v is None or isinstance(v, bool) for v in a[1:4])
    if not ok:
        raise AssertionError('C17 generator produced an out-of-contract operation: %r' % (op,))


# ---------------------------------------------------------------------------------------
# executing one operation on the real Game
# ---------------------------------------------------------------------------------------

def _wrap_rows(rows, wrap):
    if wrap == 'bytearray':
        return [bytearray(r) for r in rows]
    if wrap == 'tuple':
        return tuple(tuple(r) for r in rows)
    # the documented type is "an iterable of iterables": one-shot iterables are in contract
    if wrap == 'generator':
        return (list(r) for r in rows)
    if wrap == 'iterators':
        return [iter(list(r)) for r in rows]
    if wrap == 'reversed':
        return reversed([reversed(list(reversed(r))) for r in reversed(list(rows))])
    if wrap == 'array_H':
        # rows as typed arrays of 16-bit items: iterables of ints like any other (their raw memory is 2 bytes per item)
        import array
        return [array.array('H', r) for r in rows]
    return [list(r) for r in rows]


def call_real(g, op):
    name, a = op[0], op[1:]
    if name == 'set_sprite':
        return g.gfx.set_sprite(a[0], _wrap_rows(a[1], a[4]), tile_x_offset=a[2], tile_y_offset=a[3])
    if name == 'get_sprite':
        return g.gfx.get_sprite(a[0], tile_width=a[1], tile_height=a[2])
    if name == 'edit_sprite':
        # read - change one pixel of the returned rows in place - write back
        rows = g.gfx.get_sprite(a[0], tile_width=a[1], tile_height=a[2])
        rows[a[3]][a[4]] = a[5]
        return g.gfx.set_sprite(a[6], rows)
    if name == 'set_cell':
        return g.map.set_cell(a[0], a[1], a[2])
    if name == 'get_cell':
        return g.map.get_cell(a[0], a[1])
    if name == 'set_rect_tiles':
        return g.map.set_rect_tiles(_wrap_rows(a[0], a[3]), a[1], a[2])
    if name == 'get_rect_tiles':
        return g.map.get_rect_tiles(a[0], a[1], width=a[2], height=a[3])
    if name == 'get_rect_pixels':
        return g.map.get_rect_pixels(a[0], a[1], width=a[2], height=a[3])
    if name in ('get_flags', 'set_flags', 'clear_flags', 'reset_flags'):
        return getattr(g.gff, name)(a[0], a[1])
    if name == 'get_note':
        return g.sfx.get_note(a[0], a[1])
    if name == 'set_note':
        return g.sfx.set_note(a[0], a[1], pitch=a[2], waveform=a[3], volume=a[4], effect=a[5])
    if name == 'sfx_get_properties':
        return g.sfx.get_properties(a[0])
    if name == 'sfx_set_properties':
        return g.sfx.set_properties(a[0], editor_mode=a[1], note_duration=a[2], loop_start=a[3],
                                    loop_end=a[4])
    if name == 'get_channel':
        return g.music.get_channel(a[0], a[1])
    if name == 'set_channel':
        return g.music.set_channel(a[0], a[1], a[2])
    if name == 'music_get_properties':
        return g.music.get_properties(a[0])
    if name == 'music_set_properties':
        return g.music.set_properties(a[0], begin=a[1], end=a[2], stop=a[3])
    raise AssertionError('unknown op %r' % (name,))


RECT_GETTERS = ('get_sprite', 'get_rect_tiles', 'get_rect_pixels')
TUPLE_GETTERS = ('get_note', 'sfx_get_properties', 'music_get_properties')


def normalise(name, got):
    """Bring a getter result into the model's plain representation (may raise TypeError)."""
    if name in RECT_GETTERS:
        return [[int(v) for v in row] for row in got]
    if name in TUPLE_GETTERS:
        return tuple(got)
    return got


def fmt_op(op, limit=200):
    s = '%s(%s)' % (op[0], ', '.join(repr(v) for v in op[1:]))
    return s if len(s) <= limit else s[:limit] + '...'


def describe_diff(region, i, want, got):
    if region == 'gfx':
        s = 'sheet pixels (%d,%d),(%d,%d)' % ((i % 64) * 2, i // 64, (i % 64) * 2 + 1, i // 64)
        if i >= 4096:
            s += ' = map cell (%d,%d)' % ((i - 4096) % 128, 32 + (i - 4096) // 128)
    elif region == 'map':
        s = 'map cell (%d,%d)' % (i % 128, i // 128)
    elif region == 'gff':
        s = 'flags of sprite %d' % i
    elif region == 'music':
        s = 'music pattern %d channel %d' % (i // 4, i % 4)
    else:
        s = 'sfx %d byte %d' % (i // 68, i % 68)
    return '%s[%d] (%s) is 0x%02x, model says 0x%02x' % (region, i, s, got, want)


class History:
    """A Game and its model, driven in lock step."""

    def __init__(self, seed):
        self.seed = bytes(seed)
        self.mem, self.modes = cartgen.memory_from_seed(self.seed)
        self.g = cartgen.make_game(self.mem)
        self.m = Model(self.mem)
        self.ops = []
        # a second cart made from the first with Section.from_bytes(other.to_bytes()): no edit addresses it
        self.twin = twin_of(self.g)

    def reset(self):
        """Back to the initial memory (same as a fresh History(seed), without rebuilding the Game)."""
        for (_n, lo, hi), r in zip(cartgen.REGIONS, (self.g.gfx, self.g.map, self.g.gff, self.g.music,
                                                     self.g.sfx)):
            r._data[:] = self.mem[lo:hi]
        self.m = Model(self.mem)
        self.ops = []

    def case(self):
        return {'seed': self.seed, 'ops': [list(o) for o in self.ops]}

    def step(self, op):
        assert_contract(op)
        self.ops.append(op)
        name = op[0]
        where = 'step %d %s' % (len(self.ops), fmt_op(op))
        try:
            got = call_real(self.g, op)
        except Exception as e:  # an in-contract call must not raise
            raise Violation('%s raised %s: %s' % (where, type(e).__name__, e), self.case(), 'raises')
        want = apply_model(self.m, op)
        if want is not NOTHING:
            try:
                norm = normalise(name, got)
            except (TypeError, ValueError):
                raise Violation('%s returned %r, not the documented shape' % (where, got), self.case(), 'result')
            if norm != want:
                raise Violation('%s returned %s, model predicts %s' % (where, _short(norm), _short(want)),
                                self.case(), 'result')
        real = (self.g.gfx._data, self.g.map._data, self.g.gff._data, self.g.music._data, self.g.sfx._data)
        for rname, size, r, mr in zip(REGION_NAMES, REGION_SIZES, real, self.m.regions()):
            if len(r) != size:
                raise Violation('%s changed the size of region %s from %d to %d' % (where, rname, size, len(r)),
                                self.case(), 'sizes')
            if r != mr:
                diff = [i for i in range(size) if r[i] != mr[i]]
                raise Violation('after %s memory differs from the model at %d byte(s): %s'
                                % (where, len(diff), '; '.join(describe_diff(rname, i, mr[i], r[i])
                                                               for i in diff[:3])),
                                self.case(), 'frame')
        if name.startswith(('set_', 'clear_', 'reset_', 'sfx_set', 'music_set', 'edit_')) and cartgen.flat(self.twin) != bytes(self.mem):
            raise Violation('%s on one cart changed the memory of a second cart made from it beforehand with '
                            'Section.from_bytes(section.to_bytes())' % where, self.case(), 'other-cart')


def twin_of(g):
    from pico8.game import game as game_mod
    from pico8.gfx.gfx import Gfx
    from pico8.gff.gff import Gff
    from pico8.map.map import Map
    from pico8.sfx.sfx import Sfx
    from pico8.music.music import Music
    c = game_mod.Game.make_empty_game()
    c.gfx = Gfx.from_bytes(g.gfx.to_bytes(), version=8)
    c.map = Map.from_bytes(g.map.to_bytes(), version=8, gfx=c.gfx)
    c.gff = Gff.from_bytes(g.gff.to_bytes(), version=8)
    c.music = Music.from_bytes(g.music.to_bytes(), version=8)
    c.sfx = Sfx.from_bytes(g.sfx.to_bytes(), version=8)
    return c


def _short(v, limit=160):
    s = repr(v)
    return s if len(s) <= limit else s[:limit] + '...'


# ---------------------------------------------------------------------------------------
# classification
# ---------------------------------------------------------------------------------------

def op_labels(op):
    name, a = op[0], op[1:]
    labs = ['op:' + name]
    if name == 'set_sprite':
        sid, rows, xo, yo, _w = a
        x0, y0 = (sid % 16) * 8 + xo, (sid // 16) * 8 + yo
        w = max([len(r) for r in rows] or [0])
        h = len(rows)
        if w and h:
            for axis, over in (('right', x0 + w - 128), ('bottom', y0 + h - 128)):
                if over == 0:
                    labs.append('sprite_cross_%s_by0' % axis)
                elif over > 0:
                    labs.append('sprite_cross_' + axis)
                    labs.append('sprite_cross_%s_%s' % (axis, 'by1' if over == 1 else 'many'))
        if any(v == T for r in rows for v in r):
            labs.append('transparent')
        if len({len(r) for r in rows}) > 1:
            labs.append('ragged')
        if xo or yo:
            labs.append('sprite_offset')
        if y0 < 128 and y0 + h > 64:
            labs.append('sprite_in_shared_rows')
    elif name == 'edit_sprite':
        if a[0] // 16 + a[2] > 16:
            labs.append('edit_sprite_over_bottom_edge')
        if a[0] % 16 + a[1] > 16:
            labs.append('edit_sprite_over_right_edge')
    elif name == 'get_sprite':
        sid, tw, th = a
        if sid % 16 + tw > 16:
            labs.append('get_sprite_off_right')
        if sid // 16 + th > 16:
            labs.append('get_sprite_off_bottom')
    elif name in ('set_cell', 'get_cell'):
        labs.append('lower_half_cell' if a[1] >= 32 else 'upper_half_cell')
    elif name == 'set_rect_tiles':
        rows, x, y, _w = a
        w = max([len(r) for r in rows] or [0])
        h = len(rows)
        if w and h:
            if x + w > 128:
                labs.append('rect_cross_right')
            elif x + w == 128:
                labs.append('rect_cross_right_by0')
            if y + h > 64:
                labs.append('rect_cross_bottom')
            elif y + h == 64:
                labs.append('rect_cross_bottom_by0')
            if y <= 31 and y + h > 32:
                labs.append('rect_cross_seam')
            if y + h > 32:
                labs.append('rect_lower_half')
        if len({len(r) for r in rows}) > 1:
            labs.append('ragged_rect')
    elif name in ('get_rect_tiles', 'get_rect_pixels'):
        x, y, w, h = a
        short = 'getrect' if name == 'get_rect_tiles' else 'getpixels'
        if x + w > 128:
            labs.append(short + '_cross_right')
        if y <= 31 and y + h > 32:
            labs.append(short + '_cross_seam')
        if y + h == 64:
            labs.append(short + '_to_bottom')
        if y + h > 32:
            labs.append(short + '_lower_half')
    elif name == 'set_note':
        k = sum(v is not None for v in a[2:6])
        labs.append('note_fields_%s' % ('none' if k == 0 else 'all' if k == 4 else 'some'))
    elif name == 'sfx_set_properties':
        k = sum(v is not None for v in a[1:5])
        labs.append('sfxprop_fields_%s' % ('none' if k == 0 else 'all' if k == 4 else 'some'))
    elif name == 'set_channel':
        labs.append('channel_silent' if a[2] is None else 'channel_sfx')
    elif name == 'music_set_properties':
        k = sum(v is not None for v in a[1:4])
        labs.append('musicprop_fields_%s' % ('none' if k == 0 else 'all' if k == 3 else 'some'))
    return labs


EDGE_WRITE = {'sprite_cross_right', 'sprite_cross_bottom', 'rect_cross_right', 'rect_cross_bottom'}
SHARED = {'lower_half_cell', 'rect_lower_half', 'getrect_lower_half', 'getpixels_lower_half'}


def record_history(stats, seed, ops, labsets, sample_extra=None, kind='enumerated', want_sample=True):
    allabs = set()
    for ls in labsets:
        allabs.update(ls)
    edge = bool(allabs & EDGE_WRITE)
    shared = bool(allabs & SHARED)
    hl = [kind + '_history']
    if edge:
        hl.append(kind + '_history_edge_cross_write')
    if shared:
        hl.append(kind + '_history_shared_rows')
    if edge and shared:
        hl.append(kind + '_history_nontrivial')
    sample = {'ops': [fmt_op(o, 90) for o in ops[:6]], 'n_ops': len(ops),
              'labels': sorted(x for x in allabs if not x.startswith('op:'))[:14]}
    if sample_extra:
        sample.update(sample_extra)
    stats.case(repr((bytes(seed), ops)), edge and shared, sample if want_sample else None, hl)


# ---------------------------------------------------------------------------------------
# decoding operations from a choice stream (0 = simplest alternative)
# ---------------------------------------------------------------------------------------

CROSS_PX = (0, 1, 2, 3, 5, 8, 20)
CROSS_CELLS = (0, 1, 2, 5, 40, 70)
WRAPS = ('list', 'bytearray', 'tuple', 'generator', 'iterators', 'reversed', 'array_H')


def _offset(ch):
    if ch.chance(20):
        return ch.pick((15, 64, 120, 127, 128, 129, 200))
    return ch.below(10)


def _ragged_lengths(ch, w, h, ragged, fill):
    """Row lengths: all w, or (ragged) arbitrary 0..w with at least one full row."""
    if not ragged or h < 2:
        return [w] * h
    full = ch.below(h)
    return [w if j == full else fill[j] % (w + 1) for j in range(h)]


def dec_set_sprite(ch):
    kind = ch.weighted([(3, 'any'), (2, 'right'), (2, 'bottom'), (1, 'corner')])
    xo, yo = _offset(ch), _offset(ch)
    col = 15 - ch.below(2) if kind in ('right', 'corner') else ch.below(16)
    row = 15 - ch.below(2) if kind in ('bottom', 'corner') else ch.below(16)
    x0, y0 = col * 8 + xo, row * 8 + yo
    w = 1 + ch.below(12)
    h = 1 + ch.below(12)
    if kind in ('right', 'corner'):
        c = 128 - x0 + ch.pick(CROSS_PX)
        w = c if c >= 1 else w
    if kind in ('bottom', 'corner'):
        c = 128 - y0 + ch.pick(CROSS_PX)
        h = c if c >= 1 else h
    ragged = ch.chance(80)
    pmode = ch.pick(('const', 'random', 'mix'))
    const = ch.below(17)
    fill = expand(b'p' + ch.take(3), w * h + h)
    lens = _ragged_lengths(ch, w, h, ragged, fill)
    rows = []
    for j in range(h):
        src = fill[h + j * w:h + j * w + lens[j]]
        if pmode == 'const':
            rows.append([const] * lens[j])
        elif pmode == 'random':
            rows.append([b % 17 for b in src])
        else:
            rows.append([T if b & 1 else (b >> 1) & 15 for b in src])
    return ['set_sprite', row * 16 + col, rows, xo, yo, ch.pick(WRAPS)]


def dec_edit_sprite(ch):
    op = dec_get_sprite(ch)
    tw, th = min(op[2], 4), min(op[3], 4)
    dst = op[1] if ch.chance(128) else ch.below(256)
    return ['edit_sprite', op[1], tw, th, ch.below(th * 8), ch.below(tw * 8), ch.below(16), dst]


def dec_get_sprite(ch):
    kind = ch.weighted([(3, 'any'), (2, 'right'), (2, 'bottom'), (1, 'corner')])
    col = 15 - ch.below(3) if kind in ('right', 'corner') else ch.below(16)
    row = 15 - ch.below(3) if kind in ('bottom', 'corner') else ch.below(16)
    tw = 1 + ch.below(4)
    th = 1 + ch.below(4)
    if ch.chance(12):
        if ch.chance(128):
            tw = 17 - ch.below(3)
        else:
            th = 17 - ch.below(3)
    return ['get_sprite', row * 16 + col, tw, th]


def _cell_xy(ch):
    x = ch.pick((0, 127, 1, 126, 64)) if ch.chance(64) else ch.below(128)
    y = ch.pick((0, 31, 32, 63, 1, 30, 33, 62)) if ch.chance(96) else ch.below(64)
    return x, y


def dec_set_cell(ch):
    x, y = _cell_xy(ch)
    return ['set_cell', x, y, ch.below(256)]


def dec_get_cell(ch):
    x, y = _cell_xy(ch)
    return ['get_cell', x, y]


def dec_set_rect_tiles(ch):
    kind = ch.weighted([(3, 'any'), (2, 'right'), (2, 'bottom'), (2, 'seam'), (1, 'corner')])
    x, y = ch.below(128), ch.below(64)
    w, h = 1 + ch.below(6), 1 + ch.below(6)
    if kind in ('right', 'corner'):
        x = 127 - ch.below(3)
        w = 128 - x + ch.pick(CROSS_CELLS[:5])
    if kind in ('bottom', 'corner'):
        y = 63 - ch.below(3)
        h = 64 - y + ch.pick(CROSS_CELLS)
    if kind == 'seam':
        y = 31 - ch.below(3)
        h = 32 - y + ch.pick((1, 0, 2, 4))
    if w * h > 600:
        w = max(1, 600 // h)
    ragged = ch.chance(64)
    const = None if ch.chance(200) else ch.below(256)
    fill = expand(b't' + ch.take(3), w * h + h)
    lens = _ragged_lengths(ch, w, h, ragged, fill)
    rows = [[const] * lens[j] if const is not None else list(fill[h + j * w:h + j * w + lens[j]])
            for j in range(h)]
    return ['set_rect_tiles', rows, x, y, ch.pick(WRAPS)]


def _dec_get_rect(ch, name, max_w, max_h, max_area):
    kind = ch.weighted([(3, 'any'), (2, 'right'), (2, 'seam'), (1, 'bottom')])
    x, y = ch.below(128), ch.below(64)
    w, h = 1 + ch.below(max_w), 1 + ch.below(max_h)
    if kind == 'right':
        x = 127 - ch.below(3)
        w = 128 - x + ch.pick((1, 0, 2, 5, 40))
    elif kind == 'seam':
        y = 31 - ch.below(3)
        h = 32 - y + ch.pick((1, 0, 2))
    elif kind == 'bottom':
        # ... up to and across the bottom edge: rows past the 64th are returned as 0 (get_rect_tiles docstring)
        y = 63 - ch.below(4)
        h = 64 - y + ch.pick((0, 0, 1, 2, 40))
    h = max(1, h)
    while w * h > max_area:
        if w >= h:
            w -= 1
        else:
            h -= 1
    return [name, x, y, w, h]


def dec_get_rect_tiles(ch):
    return _dec_get_rect(ch, 'get_rect_tiles', 8, 8, 400)


def dec_get_rect_pixels(ch):
    return _dec_get_rect(ch, 'get_rect_pixels', 3, 3, 12)


def _flagbits(ch):
    k = ch.below(4)
    if k == 0:
        return 1 << ch.below(8)
    if k == 1:
        return ch.below(256)
    return (255, 0)[k - 2]


def _dec_flags(name):
    def dec(ch):
        return [name, ch.below(256), _flagbits(ch)]
    return dec


def dec_get_note(ch):
    return ['get_note', ch.below(64), ch.below(32)]


def dec_set_note(ch):
    sid, n, mask = ch.below(64), ch.below(32), ch.below(16)
    vals = [ch.below(64), ch.below(16), ch.below(8), ch.below(8)]
    return ['set_note', sid, n] + [v if mask & (1 << k) else None for k, v in enumerate(vals)]


def dec_sfx_get_properties(ch):
    return ['sfx_get_properties', ch.below(64)]


def dec_sfx_set_properties(ch):
    sid, mask = ch.below(64), ch.below(16)
    vals = [ch.below(2), ch.below(256), ch.below(64), ch.below(64)]
    return ['sfx_set_properties', sid] + [v if mask & (1 << k) else None for k, v in enumerate(vals)]


def dec_get_channel(ch):
    return ['get_channel', ch.below(64), ch.below(4)]


def dec_set_channel(ch):
    mid, chan = ch.below(64), ch.below(4)
    return ['set_channel', mid, chan, None if ch.chance(80) else ch.below(64)]


def dec_music_get_properties(ch):
    return ['music_get_properties', ch.below(64)]


def dec_music_set_properties(ch):
    return ['music_set_properties', ch.below(64)] + [ch.pick((None, True, False)) for _ in range(3)]


DECODERS = [
    ('set_sprite', dec_set_sprite), ('set_sprite_again', dec_set_sprite), ('get_sprite', dec_get_sprite),
    ('edit_sprite', dec_edit_sprite),
    ('set_cell', dec_set_cell), ('get_cell', dec_get_cell),
    ('set_rect_tiles', dec_set_rect_tiles), ('set_rect_tiles_again', dec_set_rect_tiles),
    ('get_rect_tiles', dec_get_rect_tiles), ('get_rect_pixels', dec_get_rect_pixels),
    ('get_flags', _dec_flags('get_flags')), ('set_flags', _dec_flags('set_flags')),
    ('clear_flags', _dec_flags('clear_flags')), ('reset_flags', _dec_flags('reset_flags')),
    ('get_note', dec_get_note), ('set_note', dec_set_note),
    ('sfx_get_properties', dec_sfx_get_properties), ('sfx_set_properties', dec_sfx_set_properties),
    ('get_channel', dec_get_channel), ('set_channel', dec_set_channel),
    ('music_get_properties', dec_music_get_properties), ('music_set_properties', dec_music_set_properties),
]
CHOICE_BYTES = 28


# ---------------------------------------------------------------------------------------
# part "history": the state machine
# ---------------------------------------------------------------------------------------

def part_history(ctx):
    stats = ctx.stats
    avoid = avoid_set(ctx.open_findings)
    for t in sorted(avoid):
        stats.exclude('avoid:' + t)

    def init(self, seed):
        self.h = History(seed)
        self.labsets = []

    def make_rule(name, dec):
        def r(self, c):
            op = steer(dec(Choices(c)), avoid, stats)
            labs = op_labels(op)
            self.labsets.append(labs)
            for lab in labs:
                stats.count(lab)
            self.h.step(op)
        r.__name__ = name
        return rule(c=st.binary(min_size=CHOICE_BYTES, max_size=CHOICE_BYTES))(r)

    def teardown(self):
        h = getattr(self, 'h', None)
        if h is not None and h.ops:
            record_history(stats, h.seed, h.ops, self.labsets, {'memory_modes': list(h.modes)}, 'machine')

    ns = {'init': initialize(seed=st.binary(min_size=24, max_size=24))(init), 'teardown': teardown}
    for name, dec in DECODERS:
        ns['r_' + name] = make_rule(name, dec)
    machine = type('Accessors', (RuleBasedStateMachine,), ns)
    total = 1200 if ctx.quick else 16 * 1500
    ctx.machine('history', machine, max_examples=max(1, total // ctx.nshards), steps=40 if ctx.quick else 60)


# ---------------------------------------------------------------------------------------
# parts "edge_sprite" / "edge_map": systematic edge placements, generated memory and data
# ---------------------------------------------------------------------------------------

def _pixels(dseed, tag, w, h, ragged_every=4, transparent=True):
    """h rows of w pixel values; every `ragged_every`-th sprite is ragged; ~1/8 TRANSPARENT."""
    fill = expand(bytes(dseed) + repr(tag).encode(), w * h + h + 1)
    ragged = h > 1 and fill[0] % ragged_every == 0
    rows = []
    for j in range(h):
        n = w if (not ragged or j == 0) else fill[1 + j] % (w + 1)
        src = fill[1 + h + j * w:1 + h + j * w + n]
        rows.append([T if (transparent and b >= 224) else b & 15 for b in src])
    return rows


def _shared_read_for_sprite(y0):
    """A read of the shared map rows that hold sheet rows around y0 (rows 64.. = map rows 32..)."""
    my = min(62, 32 + max(0, min(y0, 127) - 64) // 2)
    return ['get_rect_tiles', 0, my, 128, min(2, 64 - my)]


def sprite_edge_histories(group, dseed):
    """Yield op lists. group: 0 = right edge, 1 = bottom edge, 2 = corner."""
    if group == 0:
        for row in range(16):
            for xo in range(10):
                for beyond in range(11):
                    x0 = 120 + xo
                    w = max(1, 128 - x0 + beyond)
                    h = 1 + (xo + beyond) % 3
                    yo = (beyond * 3 + xo + row) % 8
                    if row == 15:
                        yo = min(yo, 8 - h)  # this group stays above the bottom edge
                    rows = _pixels(dseed, ('r', row, xo, beyond), w, h)
                    yield [['set_sprite', row * 16 + 15, rows, xo, yo, WRAPS[(xo + beyond) % 7]],
                           _shared_read_for_sprite(row * 8 + yo)]
    elif group == 1:
        for col in range(16):
            for yo in range(10):
                for beyond in range(11):
                    y0 = 120 + yo
                    h = max(1, 128 - y0 + beyond)
                    w = 1 + (yo + beyond) % 3
                    xo = (beyond * 3 + yo + col) % 8
                    if col == 15:
                        xo = min(xo, 8 - w)  # this group stays left of the right edge
                    rows = _pixels(dseed, ('b', col, yo, beyond), w, h)
                    yield [['set_sprite', 240 + col, rows, xo, yo, WRAPS[(yo + beyond) % 7]],
                           _shared_read_for_sprite(y0)]
    else:
        for xo in (0, 3, 7, 8, 9):
            for yo in (0, 3, 7, 8, 9):
                for bx in (0, 1, 2, 10):
                    for by in (0, 1, 2, 10):
                        w = max(1, 8 - xo + bx)
                        h = max(1, 8 - yo + by)
                        rows = _pixels(dseed, ('c', xo, yo, bx, by), w, h)
                        yield [['set_sprite', 255, rows, xo, yo, WRAPS[(bx + by) % 7]],
                               _shared_read_for_sprite(120 + yo)]


def map_edge_histories(group, dseed):
    """group 0 = set_rect_tiles, 1 = rectangle getters and get_sprite, 2 = single cells."""
    xs, ys, sizes = (126, 127), (30, 31, 32, 62, 63), (1, 2, 3)
    if group == 0:
        for x in xs:
            for y in ys:
                for w in sizes:
                    for h in sizes:
                        fill = expand(bytes(dseed) + bytes([x, y, w, h]), w * h)
                        rows = [list(fill[j * w:(j + 1) * w]) for j in range(h)]
                        if w == 3 and h == 3:
                            rows[1] = rows[1][:1]  # ragged
                        yield [['set_rect_tiles', rows, x, y, WRAPS[(w + h) % 7]],
                               ['get_rect_tiles', 120, max(0, min(y, 60) - 1), 10, 4]]
    elif group == 1:
        for x in xs:
            for y in ys:
                for w in sizes:
                    for h in sizes:
                        yield [['get_rect_tiles', x, y, w, h], ['get_rect_pixels', x, y, w, h]]
        for sid in sorted(set(range(15, 256, 16)) | set(range(240, 256))):
            for tw in sizes:
                for th in sizes:
                    yield [['get_sprite', sid, tw, th], ['get_cell', 127, 32 + (sid // 16) * 2]]
    else:
        for x in (0, 1, 126, 127):
            for y in (0, 1, 30, 31, 32, 33, 62, 63):
                v = expand(bytes(dseed) + bytes([x, y]), 1)[0]
                yield [['set_cell', x, y, v], ['get_cell', x, y],
                       ['get_rect_tiles', max(0, x - 1), max(0, y - 1), 3, min(3, 64 - max(0, y - 1))]]


def _run_enumeration(ctx, name, make_histories, max_examples):
    stats = ctx.stats
    avoid = avoid_set(ctx.open_findings)
    for t in sorted(avoid):
        stats.exclude('avoid:' + t)

    def body(v):
        seed, dseed = v
        h = History(seed)
        for ops in make_histories(dseed):
            h.reset()
            labsets = []
            for op in ops:
                op = steer(op, avoid, stats)
                labs = op_labels(op)
                labsets.append(labs)
                for lab in labs:
                    stats.count(lab)
                h.step(op)
            nt = stats.classes.get('enumerated_history_nontrivial', 0)
            record_history(stats, h.seed, h.ops, labsets, want_sample=(ctx.shard == 0 and nt == 0))
    ctx.hyp(name, st.tuples(st.binary(min_size=24, max_size=24), st.binary(min_size=4, max_size=4)),
            body, max_examples=max_examples)


def part_edge_sprite(ctx):
    # one shard per edge group so that each reports on its own
    group = ctx.shard % 3
    _run_enumeration(ctx, 'edge_sprite', lambda dseed: sprite_edge_histories(group, dseed),
                     2 if ctx.quick else 12)


def part_edge_map(ctx):
    group = ctx.shard % 3
    _run_enumeration(ctx, 'edge_map', lambda dseed: map_edge_histories(group, dseed),
                     3 if ctx.quick else 20)


def parts(tier):
    return [('edge_sprite', part_edge_sprite, 3), ('edge_map', part_edge_map, 3),
            ('history', part_history, 10 if tier == 'quick' else 16)]


# ---------------------------------------------------------------------------------------
# replay and vacuity
# ---------------------------------------------------------------------------------------

def replay(case):
    """Re-execute the recorded operations against a fresh Game and model."""
    h = History(case['seed'])
    for op in case['ops']:
        h.step(list(op))


REQUIRED = ('sprite_cross_right', 'sprite_cross_right_by0', 'sprite_cross_right_by1', 'sprite_cross_right_many',
            'sprite_cross_bottom', 'sprite_cross_bottom_by0', 'sprite_cross_bottom_by1',
            'sprite_cross_bottom_many', 'sprite_offset', 'transparent', 'ragged',
            'rect_cross_right', 'rect_cross_bottom', 'rect_cross_seam', 'lower_half_cell', 'upper_half_cell',
            'get_sprite_off_right', 'get_sprite_off_bottom', 'getrect_cross_right', 'getrect_cross_seam',
            'getpixels_cross_right', 'getpixels_lower_half', 'note_fields_some', 'sfxprop_fields_some',
            'channel_silent', 'channel_sfx', 'musicprop_fields_some') + tuple(
                'op:' + n for n in (
                    'set_sprite', 'get_sprite', 'set_cell', 'get_cell', 'set_rect_tiles', 'get_rect_tiles',
                    'get_rect_pixels', 'get_flags', 'set_flags', 'clear_flags', 'reset_flags', 'get_note',
                    'set_note', 'sfx_get_properties', 'sfx_set_properties', 'get_channel', 'set_channel',
                    'music_get_properties', 'music_set_properties'))


def vacuity(total, tier):
    msgs = []
    active = {k[len('avoid:'):] for k in total.excluded if k.startswith('avoid:')}
    suppressed = set()
    for t in active:
        suppressed.update(SUPPRESSES.get(t, ()))
    for lab in REQUIRED:
        if lab in suppressed:
            continue
        if total.classes.get(lab, 0) < 20:
            msgs.append('class %s seen only %d times' % (lab, total.classes.get(lab, 0)))
    n = total.classes.get('machine_history', 0)
    edge = total.classes.get('machine_history_edge_cross_write', 0)
    if n < 100:
        msgs.append('only %d state-machine histories were run' % n)
    if not active and edge * 100 < 30 * n:
        msgs.append('only %d of %d state-machine histories contain an edge-crossing write (< 30%%)' % (edge, n))
    if not active and len(total.nontrivial) < 100:
        msgs.append('only %d distinct non-trivial histories' % len(total.nontrivial))
    return msgs
