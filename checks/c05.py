"""C05 - code compression is lossless and emits only well-formed :c: streams."""
import itertools

from hypothesis import strategies as st

from vlib.runner import Violation, show
from vlib.choices import Choices, expand
from vlib import cartgen, reffmt

PROPERTY = 'C05'
LEVEL = 'exploration'
RULE = ('texts: (a) ALL strings up to length 8 (quick; 87,381 strings) / 10 (thorough) over the 4-symbol alphabet '
        '{a, b, LF, 0x80} (exhaustive: true for that space); (b) generated Lua-like text and token soup; '
        '(c) constructed repeats: a block of length L in {2,3,16,17,18,19,34} repeated at distance D in '
        '{1..20, 3100..3140}; (d) texts containing _update60 incl. tails that repeat into the compatibility '
        'suffix; (e) every prefix of a sample text; (f) generated well-formed streams (table literals, escaped '
        'literals, blocks with offsets up to 3135) for decoder agreement. Oracles: exact round trip through '
        'compress_code/decompress_code and get_bytes_from_code/get_code_from_bytes; independent stream parser '
        '(block length 3..17, 1 <= offset <= bytes produced, stream consumed exactly); reference bytewise '
        'decoder. Non-trivial = the stream has >= 1 block and >= 1 escaped literal, or the case is from '
        '(c)/(d)/(f); distinct by text/stream.'
        ' Buffers returned by compress_code/get_bytes_from_code are overwritten by the harness once copied and the same text is compressed again, so results that share storage with earlier results show up as wrong output.'
        ' Part "edge": texts whose stream ends within a few bytes of the code area\'s capacity (incl. an exact fill ending in a two-byte token; the returned area must be 0x3d00 bytes) and repetitive texts of 32767/32768/32769 characters (thorough: up to 65535).')
ASSUMPTIONS = ['texts containing NUL are outside the domain (the code area is NUL-terminated/stripped text) and are '
               'not generated; texts that themselves end with the literal 0.1.7 compatibility suffix are excluded '
               '(indistinguishable from an injected suffix); both are counted',
               'overlapping back-references (offset < length: the source runs into the bytes the block itself produces, '
               'as in every LZ77 format - a run of one character is offset 1) are well formed: the offset points inside '
               'the output produced so far; they are generated and asserted like any other stream',
               ':c: format as described in P8PNGFileFormat: 0x00 nn literal, 0x01-0x3b table index, '
               '0x3c-0xff block with offset (b-0x3c)*16+(n&15), length (n>>4)+2']
LEVEL_TEXT = ('Exploration with an exhaustive core (all short strings over the 4-symbol alphabet the property '
              'names) plus generated texts aimed at the window edge, the maximum block length, the '
              'compatibility suffix and every end position; decoder agreement on generated well-formed streams.')
LEVEL_NOTE = 'Trusted: vlib/reffmt.py stream parser and bytewise decoder (written from the format description).'
TECHNIQUE = 'exhaustive short-string enumeration + Hypothesis texts/streams; round-trip, well-formedness and differential-decoder oracles'

ALPHA = (b'a', b'b', b'\n', b'\x80')
TABLE = set(reffmt.C_TABLE[1:])


def header(n):
    return b':c:\x00' + bytes((n >> 8, n & 255)) + b'\x00\x00'


def _scribble(buf):
    """What a function returned belongs to the caller: overwrite it once it has been copied, so that a later result
    which shares storage with it (a cache, a module-level buffer) shows up as a wrong result."""
    if isinstance(buf, bytearray):
        buf[:] = b'\xa5' * len(buf)
        buf += b'\xa5\xa5'


def check_text(t, case=None, want_stats=False):
    """All C05 oracles for one text. Returns (n_blocks, n_esc, kind)."""
    from pico8.game import compress
    from pico8.game.formatter import p8png
    case = case or {'text': bytes(t)}
    try:
        compress.decompress_code(b':c:\x00\x00\x10\x00\x00' + b'\xff\x00' * (1 + len(t) % 3))     # a failing decode first
    except Exception:
        pass
    try:
        returned = compress.compress_code(bytes(t))
        stream = bytes(returned)
    except Exception as e:
        raise Violation('compress_code raised %r on %s' % (e, show(t)), case, 'compress')
    _scribble(returned)       # the returned buffer is the caller's; the same text is compressed again below
    # (2) well-formedness by the independent parser
    try:
        ops, consumed, produced = reffmt.parse_stream(stream)
    except reffmt.FormatError as e:
        raise Violation('stream for %s is malformed: %s' % (show(t), e), case, 'wellformed')
    if consumed != len(stream):
        raise Violation('stream for %s not consumed exactly' % show(t), case, 'wellformed')
    made = 0
    nblk = nesc = 0
    for op in ops:
        if op[0] == 'blk':
            nblk += 1
            _k, off, ln = op
            if not (3 <= ln <= 17):
                raise Violation('block of length %d emitted for %s' % (ln, show(t)), case, 'block-length')
            if off < 1 or off > made:
                raise Violation('block offset %d with only %d bytes produced, for %s' % (off, made, show(t)),
                                case, 'block-offset')
            made += ln
        else:
            if op[0] == 'esc':
                nesc += 1
            made += 1
    try:
        ref = reffmt.run_ops(ops)
    except reffmt.FormatError as e:
        raise Violation('reference decoder rejects the stream for %s: %s' % (show(t), e), case, 'ref-decode')
    allowed = [t]
    if b'_update60' in t:
        allowed += [t + reffmt.SHIM2, t + b'\n' + reffmt.SHIM2]
    if ref not in allowed:
        raise Violation('independent decoder recovers %s from the stream of %s' % (show(ref, 120), show(t, 120)),
                        case, 'ref-decode')
    # (1) exact round trip through picotool's decoder
    try:
        _n, code, _sz = compress.decompress_code(header(len(t)) + stream)
    except Exception as e:
        raise Violation('decompress_code raised %r on the stream of %s' % (e, show(t)), case, 'roundtrip')
    if bytes(code) != bytes(t):
        raise Violation('decompress(compress(t)) returned %s for t = %s' % (show(code, 120), show(t, 120)),
                        case, 'roundtrip')
    # ... and through the code-area functions when they pick compression
    kind = 'raw'
    try:
        returned = p8png.get_bytes_from_code(bytes(t))
        area = bytes(returned)
        _scribble(returned)
    except Exception as e:
        if type(e).__name__ == 'CodeTooLargeError' and len(t) > 0x3d00 and len(stream) + 8 > 0x3d00:
            return nblk, nesc, 'refused'       # neither form fits the code area (whether that is refused is C04's clause)
        raise Violation('get_bytes_from_code raised %r on %s' % (e, show(t)), case, 'area')
    if len(area) != 0x3d00:
        raise Violation('get_bytes_from_code returned a code area of %d bytes (0x3d00 expected) for %d characters of code '
                        'with a %d-byte stream' % (len(area), len(t), len(stream)), case, 'area-size')
    try:
        area_again = bytes(p8png.get_bytes_from_code(bytes(t))) if (len(t) + t[:1][0:1].__len__() + sum(t[:8])) % 8 == 0 else area
    except Exception as e:
        raise Violation('get_bytes_from_code raised %r on %s' % (e, show(t)), case, 'area')
    if area_again != area:
        raise Violation('get_bytes_from_code gives a different code area for the same text %s the second time (after the '
                        'caller overwrote the first result it was given)' % show(t, 100), case, 'area-repeat')
    if len(area) >= 0x3d00 and area[:4] == b':c:\x00':
        kind = 'compressed'
        try:
            rk, rcode = reffmt.decode_code_area(area[:0x3d00], 8)
        except reffmt.FormatError as e:
            raise Violation('code area written for %s is malformed: %s' % (show(t, 100), e), case, 'area-ref')
        if rk != 'compressed' or rcode != bytes(t):
            raise Violation('code area written for %s decodes (reference) to %s' % (show(t, 100), show(rcode, 100)),
                            case, 'area-ref')
        try:
            _n, code2, _sz = p8png.get_code_from_bytes(bytearray(area[:0x3d00]), 8)
        except Exception as e:
            raise Violation('get_code_from_bytes raised %r' % e, case, 'area')
        if bytes(code2) != bytes(t).replace(b'\r', b' '):
            raise Violation('get_code_from_bytes(get_bytes_from_code(t)) returned %s for t = %s'
                            % (show(code2, 100), show(t, 100)), case, 'area-roundtrip')
    return nblk, nesc, kind


def domain_excluded(t):
    if b'\x00' in t:
        return 'contains_nul'
    if t.endswith(reffmt.SHIM1) or t.endswith(reffmt.SHIM2):
        return 'ends_with_shim'
    return None


def record(ctx, t, res, forced=False, labels=()):
    nblk, nesc, kind = res
    labs = list(labels) + ['stored_' + kind]
    if nblk:
        labs.append('has_block')
    if nesc:
        labs.append('has_escape')
    ctx.stats.case(bytes(t), forced or (nblk >= 1 and nesc >= 1),
                   {'text': show(t, 80), 'blocks': nblk, 'escaped': nesc}, labs)


# ---------------------------------------------------------------- (a) exhaustive short strings

def part_short(ctx):
    maxlen = 8 if ctx.quick else 10
    ctx.stats.extra['exhaustive'] = True
    ctx.stats.extra['exhaustive_max_len'] = maxlen
    prefixes = [bytes(b''.join(p)) for p in itertools.product(ALPHA, repeat=2)]
    mine = [p for i, p in enumerate(prefixes) if i % ctx.nshards == ctx.shard]
    if ctx.shard == 0:
        for t in (b'', b'a', b'b', b'\n', b'\x80'):
            record(ctx, t, check_text(t), labels=['short'])
    n = 0
    for pre in mine:
        for ln in range(0, maxlen - 1):
            for tail in itertools.product(ALPHA, repeat=ln):
                t = pre + b''.join(tail)
                nblk, nesc, _k = check_text(t)
                n += 1
                if nblk and nesc:
                    ctx.stats.nontrivial.add(t)
    ctx.stats.evaluations += n
    ctx.stats.count('short', n)
    ctx.stats.samples.append({'text': show(mine[0] + b'a\x80a\x80a'), 'from': 'exhaustive short strings'})


# ---------------------------------------------------------------- (b) Lua-like text

VOCAB = [b'function', b'local', b'end', b'if', b'then', b'return', b'for', b'do', b'x', b'y', b'player',
         b'_update60', b'_update', b'_draw', b'spr(', b')', b'=', b'+=', b'1', b'0x7fff', b'"str"', b'\n',
         b' ', b'  ', b',', b'{', b'}', b'--c', b'\x8e', b'\x97\x83', b't[i]', b'..', b'btn(\x8b)', b'A', b'Q']


def soup(ch):
    n = ch.below(80)
    parts = []
    for _ in range(n):
        if ch.chance(40) and parts:
            parts.append(parts[ch.below(len(parts))])       # repeat an earlier piece
        else:
            parts.append(ch.pick(VOCAB))
    return b''.join(parts)


def gen_text(seed):
    ch = Choices(seed)
    kind = ch.below(4)
    if kind == 0:
        return soup(ch), 'soup'
    if kind == 1:
        src, _ = cartgen.filler_code(ch, max_lines=20)
        return src.replace(b'\x00', b'\x01'), 'filler'
    if kind == 2:
        base = soup(ch)[:40]
        return base * (2 + ch.below(5)) + ch.take(ch.below(6)).replace(b'\x00', b'z'), 'repeat'
    # update60 texts
    head = soup(ch)
    tailkind = ch.below(9)
    tail = [b'', b'\n', b' ', b'if(_update60)_update=function()', b'_update60()_update_buttons()',
            # last lines of the author's own that look like the appended compatibility line but are not it
            b'if(_update60)_update=function()_update60()end', b'x=1\nif(_update60)_update=function()_update60()end\n',
            b'if(_update60)_update=function()_update60()_update60()_update60()end',
            b'if(_update60)_update=function()_update_buttons()end'][tailkind]
    return head + b'function _update60()\nend\n' + tail, 'update60'


def part_text(ctx):
    def body(seed):
        t, kind = gen_text(seed)
        ex = domain_excluded(t)
        if ex:
            ctx.stats.exclude(ex)
            return
        res = check_text(t, {'text': t})
        record(ctx, t, res, forced=(kind == 'update60'), labels=['text_' + kind])
    ctx.hyp('text', st.binary(min_size=200, max_size=200), body, max_examples=1200 if ctx.quick else 8000)


# ---------------------------------------------------------------- (c) window-edge repeats

LS = (2, 3, 16, 17, 18, 19, 34)
DS = tuple(range(1, 21)) + tuple(range(3100, 3141))


def repeat_text(L, D, salt):
    """block (L bytes) ... same block again D bytes later, rest incompressible-ish."""
    block = bytes(0x41 + (i * 7 + salt[0]) % 26 for i in range(L))
    rnd = bytes(0xa0 + (b % 0x50) for b in expand(b'f' + salt, max(D, 1) + 8))
    # make the filler free of accidental long repeats: interleave a counter
    fill = bytearray()
    i = 0
    while len(fill) < max(D - L, 0):
        fill += bytes((rnd[i % len(rnd)], 0x30 + (i % 10), 0x80 + (i * 37) % 128))
        i += 1
    fill = bytes(fill[:max(D - L, 0)])
    if D >= L:
        return block + fill + block + b'#'
    # overlapping self-repeat: period D pattern of length L + D
    period = block[:D]
    return (period * ((L + D) // D + 2))[:L + D] + b'#'


def part_repeats(ctx):
    def body(v):
        L, D, salt = v
        t = repeat_text(L, D, salt)
        res = check_text(t, {'text': t, 'L': L, 'D': D})
        record(ctx, t, res, forced=True,
               labels=['repeat', 'far_repeat' if D >= 3100 else 'near_repeat', 'L%d' % L])
    if ctx.quick:
        ctx.hyp('repeats', st.tuples(st.sampled_from(LS), st.sampled_from(DS), st.binary(min_size=2, max_size=2)),
                body, max_examples=40)
    else:
        grid = [(L, D) for L in LS for D in DS]
        for i, (L, D) in enumerate(grid):
            if i % ctx.nshards == ctx.shard:
                body((L, D, bytes((L, D & 255))))
        ctx.stats.extra['repeat_grid_complete'] = True


# ---------------------------------------------------------------- (e) every prefix

SAMPLE = (b'-- demo\nfunction _init()\n x=64 y=64\n s="\x8e\x97 go"\nend\nfunction _update60()\n'
          b' if (btn(\x8b)) x-=1\n if (btn(\x91)) x+=1\n if (btn(\x8b)) x-=1\nend\nfunction _draw()\n cls()\n'
          b' spr(1,x,y) spr(1,x,y) print(s,x,y)\nend\n')


def part_prefixes(ctx):
    def body(salt):
        base = SAMPLE.replace(b'demo', bytes(0x61 + b % 26 for b in salt))
        for n in range(len(base) + 1):
            t = base[:n]
            res = check_text(t, {'text': t})
            record(ctx, t, res, forced=b'_update60' in t, labels=['prefix'])
    ctx.hyp('prefixes', st.binary(min_size=4, max_size=4), body, max_examples=2 if ctx.quick else 10)


# ---------------------------------------------------------------- (f) decoder agreement on streams

def gen_ops(ch):
    ops = []
    produced = 0
    n = 1 + ch.below(60)
    overlapping = False
    far = False
    big = ch.chance(48)
    if big:
        m = 3090 + ch.below(60)
        for i in range(m):
            ops.append(('lit', reffmt.C_TABLE[1 + (i * 11 + (i >> 5) * 7) % 59]))
        produced = m
    for _ in range(n):
        k = ch.below(8)
        if k <= 2 or produced < 3:
            ops.append(('lit', reffmt.C_TABLE[1 + ch.below(59)]))
            produced += 1
        elif k == 3:
            b = 1 + ch.below(255)
            ops.append(('esc', b))
            produced += 1
        else:
            ln = 3 + ch.below(15)
            if ch.chance(8):
                off = 1 + ch.below(min(produced, ln))      # may overlap
            else:
                lo = ln
                if produced < lo:
                    ln = 3
                    lo = 3
                off = lo + ch.below(min(produced, 3135) - lo + 1)
                if big and ch.chance(128):
                    off = min(produced, 3135) - ch.below(min(40, min(produced, 3135) - lo + 1))
            if off < ln:
                overlapping = True
            if off > 3120:
                far = True
            ops.append(('blk', off, ln))
            produced += ln
        if ch.chance(6) and produced < 3400:
            # bulk up so that far offsets become reachable
            for i in range(400):
                ops.append(('lit', reffmt.C_TABLE[1 + (i * 11 + produced) % 59]))
            produced += 400
    return ops, overlapping, far


def check_stream(ops, case=None):
    from pico8.game import compress
    case = case or {'ops': [list(o) for o in ops]}
    ref = reffmt.run_ops(ops)
    stream = reffmt.encode_stream(ops)
    area = header(len(ref)) + stream
    area = area + bytes(max(0, 0x3d00 - len(area)))
    try:
        _n, code, _sz = compress.decompress_code(bytearray(area))
    except Exception as e:
        raise Violation('decompress_code raised %r on a well-formed stream' % e, case, 'decoder-agreement')
    if bytes(code) != ref:
        i = next((i for i in range(min(len(code), len(ref))) if code[i] != ref[i]), min(len(code), len(ref)))
        raise Violation('picotool decoder and reference decoder differ at output byte %d (lengths %d / %d)'
                        % (i, len(code), len(ref)), case, 'decoder-agreement')


def part_streams(ctx):
    def body(seed):
        ops, overlapping, far = gen_ops(Choices(seed))
        ref = reffmt.run_ops(ops)
        if domain_excluded(ref):
            ctx.stats.exclude(domain_excluded(ref))
            return
        check_stream(ops)
        nblk = sum(1 for o in ops if o[0] == 'blk')
        ctx.stats.case(reffmt.encode_stream(ops), nblk >= 1,
                       {'stream_ops': [list(o) if o[0] == 'blk' else [o[0], chr(o[1]) if 32 <= o[1] < 127 else o[1]]
                                       for o in ops[:10]], 'n_ops': len(ops)},
                       ['stream'] + (['stream_far_offset'] if far else []) + (['stream_overlapping_reference'] if overlapping else []))
    ctx.hyp('streams', st.binary(min_size=260, max_size=260), body, max_examples=800 if ctx.quick else 6000)


def part_fuzz(ctx):
    """Coverage-guided bytes -> text -> round-trip + well-formedness oracles (thorough tier; needs atheris)."""
    corpus = [b'abcabcabc', b'function _update60()\nend\n', b'\x80\x80\x80a\x80\x80\x80', b'x=1 x=1 x=1 y=2\n',
              b'print("hello world")\n' * 3]
    ctx.fuzz('c05', runs=60000, max_len=400, corpus=corpus)


# ---------------------------------------------------------------- (g) streams around the size of the code area; long texts

def part_edge(ctx):
    """Texts whose stream ends within a few bytes of the code area's capacity (incl. an exact fill ending in a
    two-byte token), and texts whose length crosses 2^15 (the header's length field is 16 bits wide)."""
    from checks import c04
    salt = ctx.derive('edge', ctx.shard).to_bytes(8, 'big')[:3]
    if ctx.shard % 4 == 0:
        wanted = ('compressed_limit+1', 'compressed_exact_fill') if ctx.quick else None
        for label, t in c04.boundary_cases(salt, 'compressed'):
            if wanted is None or label in wanted:
                res = check_text(t, {'text': t})
                record(ctx, t, res, forced=True, labels=['area_edge', 'area_edge_' + label])
    else:
        line = b'add(rows,{%d,0,0,0,0,0,0,0})\n' % (salt[0] % 10)
        sizes = (32767, 32768, 32769) if ctx.quick else (32767, 32768, 40000, 65535, 32769, 50000)
        n = sizes[(ctx.shard - ctx.shard // 4 - 1) % len(sizes)]
        t = (line * (n // len(line) + 1))[:n - 1] + b'\n'
        res = check_text(t, {'text': t})
        record(ctx, t, res, forced=True, labels=['long_text', 'long_text_%d' % n])


def parts(tier):
    if tier == 'quick':
        return [('short', part_short, 6), ('text', part_text, 2), ('repeats', part_repeats, 2),
                ('prefixes', part_prefixes, 1), ('streams', part_streams, 1), ('edge', part_edge, 4)]
    return [('short', part_short, 14), ('text', part_text, 6), ('repeats', part_repeats, 8),
            ('prefixes', part_prefixes, 2), ('streams', part_streams, 3), ('edge', part_edge, 8), ('fuzz', part_fuzz, 2)]


def replay(case):
    if 'ops' in case:
        check_stream([tuple(o) for o in case['ops']], case)
    else:
        check_text(case['text'], case)


def vacuity(total, tier):
    msgs = []
    want_short = sum(4 ** n for n in range(0, (8 if tier == 'quick' else 10) + 1))
    if total.classes.get('short', 0) != want_short:
        msgs.append('short strings enumerated %d, expected %d' % (total.classes.get('short', 0), want_short))
    for lab in ('has_block', 'has_escape', 'far_repeat', 'near_repeat', 'text_update60', 'stream',
                'stream_far_offset', 'stream_overlapping_reference', 'stored_compressed', 'area_edge', 'long_text'):
        if total.classes.get(lab, 0) < 2:
            msgs.append('class %s seen %d times' % (lab, total.classes.get(lab, 0)))
    return msgs
