"""C09 - luafmt changes only whitespace, works on every valid program, never drops code."""
import os
import tempfile

from hypothesis import strategies as st

from vlib.runner import Violation, show
from vlib.choices import Choices
from vlib import reflex, luagen, reffmt
from checks import c01

PROPERTY = 'C09'
LEVEL = 'exploration'
RULE = ('(a) valid LUAGEN programs of the dialect x free / one-statement-per-line / minimal layouts (comments of all '
        'kinds, blank lines, tabs, LF/CRLF, with and without final newline) x indent widths 0-8; (b) degenerate '
        'programs: empty, whitespace-only, comment-only, single-token statements, no final newline; (c) '
        'lexable-but-not-fully-parsed inputs: a valid program with one token deleted / inserted / duplicated, or with a '
        'newer-syntax statement (`a |= 1`, `a ^^= b`, `?x,y`, `while (c) x+=1`, ...) spliced at a statement boundary, '
        'kept iff picotool lexes it and its parser stops before the last significant token. Writers: '
        'LuaFormatterWriter (the CLI\'s), LuaASTEchoWriter, LuaMinifyWriter (clause c only), Lua.reparse; '
        '`p8tool luafmt [--indentwidth n] [--overwrite]` on a subset. Oracle (a,b): the writer returns; the reference '
        'lexer reads the output to the input\'s significant tokens with identical spelling (strings: equal '
        'denotation) and the input\'s comments up to whitespace inside them; line-scoped constructs keep their '
        'extent; picotool\'s token count is unchanged. Oracle (c): an exception / non-zero exit with no file written, '
        'or output whose tokens equal the input\'s; returning normally with fewer tokens is the violation. '
        'Non-trivial = (a) nesting >= 2 or a comment or a short-if, (c) the parser stopped with >= 1 significant '
        'token left; distinct by (source, indent, writer).'
        ' Every library run writes the same Lua object twice; if the second output differs it is the one judged. LUAGEN strings include multi-line long strings whose inner lines end in blanks/tabs.'
        ' LUAGEN strings include long strings with blank-only interior lines.'
        " Comment words include backslash sequences (\\n, \\p, \\1, \\g<0>) and the editor's tab separator -->8."
        ' Part "line_ends": eleven line-scoped shapes (short-if with bare return / break / goto / else, ? print, end-of-line and block comments, nested short-if, if-do) each under LF, CR LF and CR line ends.'
        ' Part "header_names": the same family through `p8tool luafmt` at widths 0/2/4 (cases of the open known finding luafmt-header-like-name-line are left out and counted while it is open).')
ASSUMPTIONS = ['lexical rules are represented by vlib/reflex.py', 'string literals may be re-spelled with equal denotation '
               '(the codebase\'s contract for strings is C06)',
               'for clause (c) the precondition "not parsed to its end" is evaluated with picotool\'s own root.end_pos']
LEVEL_TEXT = ('Exploration: grammar-based programs x layouts x indent widths through the formatter and the other '
              'tree-driven writers, judged by an independent lexer; mutated and newer-syntax programs for the '
              'no-silent-loss clause.')
LEVEL_NOTE = 'Trusted: vlib/reflex.py, vlib/luagen.py.'
TECHNIQUE = 'grammar-based generation + token mutation; token/comment-sequence oracle with a reference lexer'

WS = b' \t\r\n'


def squeeze(b):
    return bytes(c for c in b if c not in WS)


def fmt_lib(chunks, writer, args):
    from pico8.lua import lua as plua
    from vlib import prelude
    prelude.lua()
    l = plua.Lua.from_lines(list(chunks), version=8)
    cls = {'fmt': plua.LuaFormatterWriter, 'astecho': plua.LuaASTEchoWriter, 'astmin': plua.LuaMinifyWriter}[writer]
    out = b''.join(l.to_lines(writer_cls=cls, writer_args=args))
    # the same object written once more (a tool that measures, then writes): if that differs from the first output it
    # is the one handed to the oracle
    out2 = b''.join(l.to_lines(writer_cls=cls, writer_args=dict(args) if args else args))
    return l, (out if out2 == out else out2)


def compare(src, out, case, ranges, what, renaming=False, drop_semis=False, drop_comments=False):
    ref_in = reflex.lex(src)
    try:
        ref_out = reflex.lex(out)
    except reflex.Malformed as e:
        raise Violation('%s output does not lex: %s -- input %s -- output %s' % (what, e, show(src, 140), show(out, 140)),
                        case, 'relex')
    sig_in = reflex.significant(ref_in)
    sig_out = reflex.significant(ref_out)
    if drop_semis:
        sig_in = [t for t in sig_in if t.text != b';']
        sig_out = [t for t in sig_out if t.text != b';']
    n = min(len(sig_in), len(sig_out))
    for k in range(n):
        a, b = sig_in[k], sig_out[k]
        if a.kind != b.kind or (a.kind == 'string' and a.value != b.value) or \
                (a.kind in ('keyword', 'symbol', 'number') and a.text != b.text) or \
                (a.kind in ('name', 'label') and not renaming and a.text != b.text):
            raise Violation('%s changed token %d from %s %s to %s %s -- input %s -- output %s'
                            % (what, k, a.kind, show(a.text, 30), b.kind, show(b.text, 30), show(src, 140),
                               show(out, 140)), case, 'token')
    if len(sig_in) != len(sig_out):
        missing = sig_in[n] if len(sig_in) > n else sig_out[n]
        raise Violation('%s output has %d significant tokens, the input has %d (first unmatched %s) -- input %s -- '
                        'output %s' % (what, len(sig_out), len(sig_in), show(missing.text, 30), show(src, 140),
                                       show(out, 140)), case, 'lost-code' if len(sig_out) < len(sig_in) else 'count')
    if not drop_comments:
        cin = [squeeze(t.text) for t in ref_in if t.kind == 'comment']
        cout = [squeeze(t.text) for t in ref_out if t.kind == 'comment']
        if cin != cout:
            raise Violation('%s changed the comments: %r -> %r -- input %s -- output %s'
                            % (what, [show(c, 24) for c in cin][:6], [show(c, 24) for c in cout][:6], show(src, 140),
                               show(out, 140)), case, 'comments')
        # each comment must sit between the same significant tokens as before
        def slots(ref):
            k = 0
            out_ = []
            for t in ref:
                if t.kind in reflex.SIGNIFICANT:
                    k += 1
                elif t.kind == 'comment':
                    out_.append(k)
            return out_
        if slots(ref_in) != slots(ref_out) and not drop_semis:
            raise Violation('%s moved a comment across code -- input %s -- output %s' % (what, show(src, 140), show(out, 140)),
                            case, 'comments')
    # line-scoped extents
    if not drop_semis:
        pos_out = [k for k, t in enumerate(ref_out) if t.kind in reflex.SIGNIFICANT]
        for (i, j) in ranges:
            for k in range(pos_out[i], pos_out[j]):
                if ref_out[k].kind == 'newline':
                    raise Violation('%s broke the line of a short-if / ? statement (tokens %d..%d) -- input %s -- output %s'
                                    % (what, i, j, show(src, 140), show(out, 140)), case, 'scope-inside')
            k = pos_out[j] + 1
            while k < len(ref_out) and ref_out[k].kind in ('space', 'comment') and b'\n' not in ref_out[k].text:
                k += 1
            if k < len(ref_out) and ref_out[k].kind not in ('newline',) and \
                    not (ref_out[k].kind == 'comment' and b'\n' in ref_out[k].text):
                raise Violation('%s joined the line of a short-if / ? statement with the code after it -- input %s -- '
                                'output %s' % (what, show(src, 140), show(out, 140)), case, 'scope-after')
    return ref_in


def check_valid(src, indent, ranges, case, chunked=False):
    """Clauses (a)/(b): every tree-driven echo of a valid program keeps all tokens and comments."""
    from pico8.lua import lua as plua
    chunks = [src]
    if chunked:
        chunks = [ln + b'\n' for ln in src.split(b'\n')]
        chunks[-1] = chunks[-1][:-1]
        chunks = [c for c in chunks if c]
    for writer, args in (('fmt', {'indentwidth': indent}), ('astecho', None)):
        what = {'fmt': 'luafmt (LuaFormatterWriter, indent %d)' % indent, 'astecho': 'LuaASTEchoWriter'}[writer]
        try:
            l, out = fmt_lib(chunks, writer, args)
        except Exception as e:
            raise Violation('%s raised %r on a valid program -- %s' % (what, e, show(src, 200)), case, 'raises-' + writer)
        ref_in = compare(src, out, case, ranges, what)
        if writer == 'fmt':
            c01.check_token_count(l, out, case, what)
    return ref_in


def cli_luafmt(src, indent, overwrite, case):
    from pico8 import tool
    with tempfile.TemporaryDirectory(prefix='c09_') as td:
        path = os.path.join(td, 'c.p8')
        with open(path, 'wb') as fh:
            fh.write(reffmt.write_p8(8, src, bytes(0x4300)))
        argv = ['luafmt']
        if indent != 2:
            argv += ['--indentwidth', str(indent)]
        if overwrite:
            argv.append('--overwrite')
        argv.append(path)
        before = open(path, 'rb').read()
        try:
            rc = tool.main(argv)
            err = None
        except Exception as e:
            rc, err = None, e
        outp = path if overwrite else os.path.join(td, 'c_fmt.p8')
        if err is not None or rc != 0:
            return None, err or rc, (open(path, 'rb').read() == before and (overwrite or not os.path.exists(outp)))
        if not os.path.exists(outp):
            raise Violation('`p8tool luafmt` returned 0 but wrote no file', case, 'cli')
        try:
            return reffmt.read_p8(open(outp, 'rb').read())['code'], None, True
        except reffmt.FormatError as e:
            raise Violation('the cart written by `p8tool luafmt` is not readable by the reference .p8 reader: %s -- '
                            'source %s' % (e, show(src, 160)), case, 'cli-unreadable')


def build_valid(seed, avoid=()):
    ch = Choices(seed)
    mode = ch.pick(['free', 'free', 'lines', 'lines', 'minimal'])
    cfg = luagen.Cfg(max_depth=2 + ch.below(2), max_stmts=1 + ch.below(6), budget=40 + ch.below(100), avoid=avoid)
    model, tags = luagen.gen_program(ch, cfg)
    toks, stmts = luagen.render(model, ch)
    lay = luagen.layout(toks, ch, mode, allow_cr=True)
    indent = ch.below(9)
    v = ch.below(24)
    via = 'lib'
    if v == 0:
        via = 'cli'
    elif v == 1:
        via = 'cli_overwrite'
    chunked = ch.chance(50)
    return lay, stmts, mode, indent, via, chunked, tags


def part_valid(ctx):
    def body(seed):
        lay, stmts, mode, indent, via, chunked, tags = build_valid(seed, ctx.open_findings)
        if luagen.verify(lay) is None:
            ctx.stats.exclude('generator_selfcheck_failed')
            return
        src = lay.src
        ranges = c01.scoped_ranges(lay.kept)
        case = {'source': src, 'indent': indent, 'kind': 'valid', 'seed': bytes(seed)}
        ref_in = check_valid(src, indent, ranges, case, chunked)
        labs = ['mode_' + mode, 'indent_%d' % indent]
        if via != 'lib' and b'#include' not in src:
            out, err, untouched = cli_luafmt(src, indent, via == 'cli_overwrite', dict(case, via=via))
            if out is None:
                raise Violation('`p8tool luafmt` failed on a valid program: %r -- %s' % (err, show(src, 160)),
                                dict(case, via=via), 'cli-raises')
            src_nl = src if src.endswith(b'\n') else src + b'\n'
            compare(src_nl, out, dict(case, via=via), [], '`p8tool luafmt`')
            labs.append('via_' + via)
        if any(t.kind == 'comment' for t in ref_in):
            labs.append('comments')
        if ranges:
            labs.append('line_scoped')
        if not src.endswith(b'\n'):
            labs.append('no_final_newline')
        if b'\r' in src.replace(b'\r\n', b''):
            labs.append('bare_cr_line_ends')
        depth = max([s[4] for s in stmts] + [0])
        if depth >= 1:
            labs.append('nested')
        if 'paren_head' in tags:
            labs.append('paren_head')
        ctx.stats.case(src + bytes((indent,)), depth >= 1 or 'comments' in labs or bool(ranges),
                       {'source': show(src, 140), 'indent': indent, 'labels': labs}, labs)
    ctx.hyp('valid', st.binary(min_size=640, max_size=640), body, max_examples=450 if ctx.quick else 8000)


DEGENERATE = [b'', b'\n', b'  ', b'\t\n', b'\n\n\n', b'-- c', b'-- c\n', b'--[[c]]', b'--[[c\nd]]\n', b'// c\n', b'x=1',
              b'x=1\n', b'f()', b'::l::', b'return', b'return\n', b'break', b';', b';;\n', b'x=1 -- c', b'?"s"',
              b'if (a) b=1', b'do end', b' x=1', b'x=1 ', b'x=1\t', b'\nx=1', b'x=[[\n]]', b'x="s"--c', b'goto l',
              b'local x', b'x={}', b'f{}', b'f"s"', b'f[[s]]', b'\r\n', b'x=1\r\n', b'-- a\n-- b', b'--a\n\n\n--b\n\n']


def part_degenerate(ctx):
    from pico8.lua import lua as plua
    for src in DEGENERATE:
        try:
            plua.Lua.from_lines([src], version=8)
        except Exception:
            ctx.stats.exclude('degenerate_rejected_by_parser')
            continue
        for indent in (0, 2, 4):
            case = {'source': src, 'indent': indent, 'kind': 'valid'}
            check_valid(src, indent, [], case)
            ctx.stats.case(src + bytes((indent,)), True, {'degenerate': show(src)}, ['degenerate'])
        out, err, untouched = cli_luafmt(src, 2, False, {'source': src, 'indent': 2, 'kind': 'valid', 'via': 'cli'})
        if out is None:
            raise Violation('`p8tool luafmt` failed on the valid program %s: %r' % (show(src), err),
                            {'source': src, 'indent': 2, 'kind': 'valid', 'via': 'cli'}, 'cli-raises')
        ctx.stats.count('degenerate_cli')


# line-scoped constructs in their typical surroundings, each run with LF, CR LF and CR line ends
LINE_SHAPES = [
    b'function hit(e)\n if (e.dead) return\n e.hp-=1\nend\n',
    b'function f()\n if (a) return\n x=1\n if (b) return 1\n y=2\nend\n',
    b'for i=1,3 do\n if (i==2) break\n n+=i\nend\n',
    b'if (a) b=1 else c=2\nd=3\n',
    b'if (a) b=1\nelse_=2\n',
    b'?"hi"\nx=1\n?"a"\ny=2\n',
    b'while k do\n if (k>3) goto done\n k+=1\nend\n::done::\n',
    b'x=1 -- c\ny=2 // d\n--[[ e\n f ]]\nz=3\n',
    b'if (a) if (b) c=1\nd=2\n',
    b'function g()\n if (a) do return end\n if (b) return\nend\n',
    b'local t={\n 1,\n 2,\n}\nif (#t>1) t[1]=0 t[2]=0\nprint(t)\n',
]


def part_line_ends(ctx):
    for k, base in enumerate(LINE_SHAPES):
        for nl, name in ((b'\n', 'lf'), (b'\r\n', 'crlf'), (b'\r', 'cr')):
            src = base.replace(b'\n', nl)
            for indent in (0, 2):
                case = {'source': src, 'indent': indent, 'kind': 'valid'}
                check_valid(src, indent, [], case, chunked=(nl != b'\r' and (k + indent) % 4 == 0))
                ctx.stats.case(src + bytes((indent,)), True, {'line_scoped_shape': show(src, 60), 'line_ends': name} if k < 2 else None,
                               ['line_shape', 'line_ends_' + name])


# ---------------------------------------------------------------- clause (c): not fully parsed

NEWER = [b'a |= 1', b'a &= 1', b'a ^^= b', b'a <<= 2', b'a >>= 2', b'a \\= 2', b'a ^= 2', b'?x,y', b'?x', b'?"a",1,2',
         b'while (c) x+=1', b'while(a<b) a+=1', b'local x <const> = 1', b'x = 1 // 2 // 3 ;;; = 4', b'a >>>= 1',
         b'a <<>= 1', b'print(1) = 2', b'x = = 1', b'f( , )', b'a +', b'if (a) else', b'x = 0x1p4 q', b'goto',
         b'return return', b'= 1', b') x=1', b'} y=2', b'end', b'until x', b'elseif a then', b'x.1 = 2', b'a..b = 1']


def mutate(ch, lay):
    """Returns (source, kind) - a program that may no longer be fully parseable."""
    src = lay.src
    ref = reflex.lex(src)
    sig = reflex.significant(ref)
    k = ch.below(4)
    if k == 3 or not sig:
        # splice a newer-syntax statement at a line boundary
        stmt = ch.pick(NEWER)
        lines = src.split(b'\n')
        pos = ch.below(len(lines) + 1)
        lines.insert(pos, stmt)
        return b'\n'.join(lines), 'newer_syntax'
    t = sig[ch.below(len(sig))]
    if k == 0:
        return src[:t.start] + src[t.end:], 'token_deleted'
    if k == 1:
        ins = ch.pick([b'end', b')', b'(', b'=', b'then', b'do', b',', b'x', b'1', b'else', b'::', b'}', b'..', b'|='])
        return src[:t.start] + ins + b' ' + src[t.start:], 'token_inserted'
    return src[:t.end] + b' ' + t.text + src[t.end:], 'token_duplicated'


def check_partial(src, indent, case):
    """Clause (c). Returns label or None (not in the clause's domain)."""
    from pico8.lua import lua as plua
    ref = reflex.try_lex(src)
    if ref is None:
        return None
    sig_in = reflex.significant(ref)
    try:
        l = plua.Lua.from_lines([src], version=8)
    except Exception:
        return 'rejected_at_parse'
    sigpos = [i for i, t in enumerate(l.tokens) if type(t).__name__ not in ('TokSpace', 'TokNewline', 'TokComment')]
    if len(sigpos) != len(sig_in):
        return None     # the lexers disagree on this (invalid) text: C07's business
    if not sigpos or l.root.end_pos > sigpos[-1]:
        return 'fully_parsed'
    left = sum(1 for p in sigpos if p >= l.root.end_pos)
    for writer, args in (('fmt', {'indentwidth': indent}), ('astecho', None), ('astmin', None),
                         ('astecho', {'ignore_tokens': True})):
        what = {'fmt': 'luafmt (LuaFormatterWriter)', 'astecho': 'LuaASTEchoWriter', 'astmin': 'LuaMinifyWriter'}[writer]
        if args and args.get('ignore_tokens'):
            what += ' in ignore_tokens mode (the mode Lua.reparse() documents for rewriting a transformed tree)'
        try:
            _l, out = fmt_lib([src], writer, args)
        except Exception:
            continue            # failing with an error is what the property asks for
        ref_out = reflex.try_lex(out)
        n_out = len([t for t in reflex.significant(ref_out) if t.text != b';']) if ref_out is not None else -1
        n_in = len([t for t in sig_in if t.text != b';'])
        if ref_out is None or n_out < n_in:
            raise Violation('%s silently dropped code: picotool parsed only up to token %d of %d, and the writer returned '
                            '%d of %d tokens -- input %s -- output %s'
                            % (what, len(sigpos) - left, len(sigpos), n_out, n_in, show(src, 160), show(out, 160)),
                            case, 'silent-loss-' + writer)
    # Lua.reparse
    try:
        l2 = plua.Lua.from_lines([src], version=8)
        l2.reparse(writer_cls=plua.LuaASTEchoWriter)
        out = b''.join(l2.to_lines())
        ref_out = reflex.try_lex(out)
        if ref_out is None or len(reflex.significant(ref_out)) < len(sig_in):
            raise Violation('Lua.reparse silently dropped code (%d of %d tokens left) -- input %s'
                            % (len(reflex.significant(ref_out)) if ref_out else -1, len(sig_in), show(src, 160)),
                            case, 'silent-loss-reparse')
    except Violation:
        raise
    except Exception:
        pass
    # CLI
    if b'#include' not in src and b'\x00' not in src:
        out, err, untouched = cli_luafmt(src, indent, False, case)
        if out is None:
            if not untouched:
                raise Violation('`p8tool luafmt` failed but wrote/changed a file', case, 'cli-partial-write')
        else:
            ref_out = reflex.try_lex(out)
            if ref_out is None or len(reflex.significant(ref_out)) < len(sig_in):
                raise Violation('`p8tool luafmt` wrote a shortened program: %d of %d tokens -- input %s -- output %s'
                                % (len(reflex.significant(ref_out)) if ref_out else -1, len(sig_in), show(src, 160),
                                   show(out, 160)), case, 'silent-loss-cli')
    return 'partial_parse'


def part_partial(ctx):
    def body(seed):
        ch = Choices(seed)
        cfg = luagen.Cfg(max_depth=2, max_stmts=1 + ch.below(4), budget=30 + ch.below(50), avoid=ctx.open_findings)
        model, tags = luagen.gen_program(ch, cfg)
        toks, stmts = luagen.render(model, ch)
        lay = luagen.layout(toks, ch, ch.pick(['lines', 'free', 'minimal']), comments=ch.chance(128))
        if luagen.verify(lay) is None:
            ctx.stats.exclude('generator_selfcheck_failed')
            return
        src, kind = mutate(ch, lay)
        indent = ch.below(9)
        res = check_partial(src, indent, {'source': src, 'indent': indent, 'kind': 'partial'})
        if res is None:
            ctx.stats.exclude('mutant_not_lexable')
            return
        ctx.stats.case(src, res == 'partial_parse', {'source': show(src, 140), 'mutation': kind, 'outcome': res},
                       ['mut_' + kind, res])
    ctx.hyp('partial', st.binary(min_size=500, max_size=500), body, max_examples=250 if ctx.quick else 4000)


def part_newer(ctx):
    for stmt in NEWER:
        for pre, post in ((b'', b''), (b'x=1\n', b'\ny=2\n'), (b'', b'\nfunction f() return 1 end\n'),
                          (b'function g()\n', b'\nend\nz=3\n')):
            src = pre + stmt + post
            res = check_partial(src, 2, {'source': src, 'indent': 2, 'kind': 'partial'})
            if res is None:
                ctx.stats.exclude('newer_not_lexable')
                continue
            ctx.stats.case(src, res == 'partial_parse', {'source': show(src, 100), 'outcome': res}, ['newer_fixed', res])


def part_header_names(ctx):
    """Identifiers of the form __word__ alone on an (indented) input line, formatted through the command line into a
    .p8 file: the output cart must still hold the program.  While the known finding `header_like_name_line` is open
    (luafmt puts such a name at column 0 when its line is at nesting depth 0 or the indent width is 0, where the .p8
    format reads it as a section header) exactly those cases are left out, and counted."""
    avoided = 'header_like_name_line' in ctx.open_findings
    for k, (src, name) in enumerate(c01.header_name_sources()):
        nested = src.startswith((b'f(', b'do return', b't={'))
        for indent in (0, 2, 4):
            if avoided and not (nested and indent > 0):
                ctx.stats.exclude('header_like_name_at_column_0(known finding, left out)')
                continue
            case = {'source': src, 'indent': indent, 'kind': 'valid', 'via': 'cli'}
            check_valid(src, indent, [], case)
            out, err, _u = cli_luafmt(src, indent, False, case)
            if out is None:
                raise Violation('`p8tool luafmt` failed on the valid program %s: %r' % (show(src), err), case, 'cli-raises')
            compare(src, out, case, [], '`p8tool luafmt`')
            ctx.stats.case(src + bytes((indent,)), True, {'source': show(src, 60), 'indent': indent} if k % 9 == 0 else None,
                           ['header_like_name_alone_on_a_line'] + (['header_like_name_line_indented'] if nested and indent else []))


def parts(tier):
    if tier == 'quick':
        return [('valid', part_valid, 8), ('degenerate', part_degenerate, 1), ('partial', part_partial, 4),
                ('newer', part_newer, 1), ('line_ends', part_line_ends, 1), ('header_names', part_header_names, 1)]
    return [('valid', part_valid, 10), ('degenerate', part_degenerate, 1), ('partial', part_partial, 3),
            ('newer', part_newer, 1), ('line_ends', part_line_ends, 1), ('header_names', part_header_names, 1)]


def replay(case):
    src = case['source']
    indent = case.get('indent', 2)
    if case.get('kind') == 'partial':
        check_partial(src, indent, case)
        return
    ranges = []
    if 'seed' in case:
        lay = build_valid(case['seed'])[0]
        if lay.src == src:
            ranges = c01.scoped_ranges(lay.kept)
    check_valid(src, indent, ranges, case)
    if case.get('via', 'lib') != 'lib':
        out, err, _u = cli_luafmt(src, indent, case['via'] == 'cli_overwrite', case)
        if out is None:
            raise Violation('`p8tool luafmt` failed on a valid program: %r' % (err,), case, 'cli-raises')
        compare(src if src.endswith(b'\n') else src + b'\n', out, case, [], '`p8tool luafmt`')


def vacuity(total, tier):
    msgs = []
    for lab in ('comments', 'line_scoped', 'no_final_newline', 'nested', 'mode_free', 'mode_lines', 'via_cli',
                'via_cli_overwrite', 'degenerate', 'partial_parse', 'mut_newer_syntax', 'mut_token_deleted',
                'paren_head', 'bare_cr_line_ends', 'header_like_name_alone_on_a_line'):
        if total.classes.get(lab, 0) < 3:
            msgs.append('class %s seen %d times' % (lab, total.classes.get(lab, 0)))
    return msgs
