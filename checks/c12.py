"""C12 - require()/#include never read files outside the permitted directories."""
import os
import tempfile

from hypothesis import strategies as st

from vlib.runner import Violation
from vlib.choices import Choices
from vlib.fsguard import FsGuard, contains
from vlib import reffmt

PROPERTY = 'C12'
LEVEL = 'exploration'
RULE = ('case = (mode, setting, S): mode "include" writes `#include S<ext>` (ext in .lua/.p8/.p8.png) into main.p8 and '
        'loads it with file.from_file, settings = {own: cart in work/proj, home: $HOME redirected, cart in '
        '~/.lexaloffle/pico-8/carts/game, homex: cart in the prefix-sharing ~/.lexaloffle/pico-8/cartsX}; mode '
        '"require" writes require("S") into main.lua (or, nested, into a package that main.lua requires) and runs '
        'tool.main([build, OUT.p8, --lua, main.lua]) under load-path settings {default, lib/?.lua;? , ?.lua;?/init.lua, '
        '<abs>/libs/?.lua;<abs>/libs/?/init.lua} given by --lua-path or PICO8_LUA_PATH (and --lua-path with PICO8_LUA_PATH naming another, all-canary directory: the option wins). S ranges over ALL sequences of '
        '<= 3 (thorough: <= 4) segments from {lib, sub, ., .., empty, sibling name, ok, canary, ?, ;} joined by / with '
        'optional leading/trailing /, plus absolute and relative paths (with/without extension, and with a ../ run '
        'to the filesystem root) of every file of the layout, plus Hypothesis-drawn strings of 4-8 segments from a '
        'larger alphabet. The layout (temp dir, rebuilt per shard and for every replay; static files are read-only and '
        're-verified) has project/sub dirs, prefix-sharing siblings (projx, proj-old, libsx, cartsX, cartsXy) and a '
        'uniquely marked file at every position inside and outside the roots. Every call is run under a recorder of '
        'open/isfile/exists issued from pico8.*. Non-trivial = S has a `..` segment, is absolute or names a sibling '
        'directory; distinct by (mode, setting, nested, ext, S).'
        ' Plus strings that mean something to a shell, to Windows or to os.path helpers: ~ and ~/... for every file under the redirected $HOME, backslash spellings of every escaping relative path, $HOME / ${HOME} / %HOME%, glob characters, file:// - none of them names a file inside a root.'
        ' The layout has sibling directories differing from a root only in letter case (Proj, PROJ, Libs, Carts, cartsx); the special strings include dot-encoded (Lua package style) absolute and escaping relative paths of every file.'
        " Include cases are also run from the parent of the cart's directory (relative cart name) and from the layout root."
        ' Settings qdir/qdir_rel: the project directory has a `?` in its name (reduced string space), with canaries where a wrong substitution of that `?` would land.')
ASSUMPTIONS = ['Linux path conventions; of the three PICO-8 cart folders only ~/.lexaloffle/pico-8/carts is exercised',
               'a cart lying in a directory that merely shares a name prefix with the carts folder (cartsX) is not "in the '
               'carts folder": its include root is its own directory',
               'no symbolic links in the layout (not part of the quantifier)',
               'allowed roots of a require = directory of the requiring file + directory part of every load-path pattern '
               'before its first `?` (relative patterns: relative to the requiring file)',
               'failing (file not found, syntax error in the included text) is always acceptable; only opening/reading '
               'outside the roots, or succeeding on a string that must be rejected, is a violation',
               'isfile/exists probes outside the roots are counted (probe_outside), not asserted']
LEVEL_TEXT = ('Exploration: the bounded string space is enumerated completely per setting (see coverage.exhaustive) and '
              'extended by random longer strings; the oracle observes the actual file-system calls, not the return value.')
LEVEL_NOTE = 'Trusted: vlib/fsguard.py (recorder), os.path.realpath/normpath, vlib/reffmt.py for the canary carts.'
TECHNIQUE = 'exhaustive enumeration of path strings x settings + Hypothesis strings; monitored execution (FSGUARD) with canary files'

MARK = b'canary_marker_7f3a'
AVOID_TAGS = ('prefix_sibling', 'carts_prefix', 'dotdot_pattern')
SEGS = ['lib', 'sub', '.', '..', '', 'projx', 'ok', 'canary', '?', ';']
SIB = {'own': 'projx', 'home': 'cartsX', 'homex': 'carts', 'tilde': 'projx'}
SIBLINGS = {'projx', 'proj-old', 'libsx', 'cartsX', 'cartsXy', 'Proj', 'PROJ', 'Libs', 'LIBS', 'Carts', 'CARTS', 'cartsx'}
RSEGS = SEGS + ['proj', 'work', 'abs', 'libs', 'libsx', 'proj-old', 'init', 'mod', 'pkg', 'inc', 'main', '...',
                'home', '.lexaloffle', 'pico-8', 'carts', 'cartsX', 'cartsXy', 'game', 'gamex', 'ok.lua',
                'canary.lua', 'main.lua', 'build', 'out.p8']
EXTS = ['.lua', '.p8', '.p8.png']
HP = 'home/.lexaloffle/pico-8'

# (relative path, pure canary?)  pure canaries lie outside every root in every mode/setting
FILES = [(p, True) for p in (
    'canary.lua', 'canary.p8', 'init.lua', 'ok.lua',
    'work/canary.lua', 'work/canary.p8', 'work/canary.p8.png', 'work/init.lua', 'work/ok.lua',
    'work/projx/canary.lua', 'work/projx/canary.p8', 'work/projx/canary.p8.png', 'work/projx/ok.lua',
    'work/projx/init.lua', 'work/projx/lib/ok.lua', 'work/projx/sub/ok.lua',
    'work/proj-old/canary.lua', 'work/proj-old/ok.lua',
    'abs/canary.lua', 'abs/init.lua', 'abs/ok.lua', 'abs/mod.lua',
    'abs/libsx/canary.lua', 'abs/libsx/ok.lua', 'abs/libsx/mod.lua', 'abs/libsx/init.lua', 'abs/libsx/pkg/init.lua',
    'home/canary.lua', HP + '/canary.lua', HP + '/ok.lua', HP + '/cartsXy/canary.lua', HP + '/cartsXy/ok.lua',
    # directories whose names differ from a root's only in letter case (different directories on this file system)
    'work/Proj/canary.lua', 'work/PROJ/ok.lua', 'work/Proj/lib/ok.lua', 'abs/Libs/mod.lua', 'abs/LIBS/ok.lua',
    HP + '/Carts/canary.lua', HP + '/CARTS/ok.lua', HP + '/Carts/game/ok.lua', HP + '/cartsx/canary.lua',
    # what a project directory named `qu?ry` turns into when its `?` is (wrongly) taken for the pattern's placeholder
    'work/quokry/ok', 'work/quokry/ok.lua', 'work/quokry/lib/ok.lua', 'work/qulibry/lib', 'work/qulibry/lib.lua',
    'work/qucanaryry/canary.lua', 'work/qucanaryry/canary', 'work/quinitry/init.lua', 'work/qusubry/sub.lua',
    'work/qulib/okry/lib/ok.lua', 'work/qulib/okry/lib/ok',
)] + [(p, False) for p in (
    'work/proj/ok.lua', 'work/proj/ok.p8', 'work/proj/init.lua', 'work/proj/lib/ok.lua', 'work/proj/lib/ok.p8',
    'work/proj/lib/ok.p8.png', 'work/proj/lib/init.lua', 'work/proj/lib/lib/ok.lua', 'work/proj/sub/ok.lua',
    'work/proj/sub/inc.lua',
    'work/qu?ry/ok.lua', 'work/qu?ry/lib/ok.lua', 'work/qu?ry/init.lua',
    'work/~/ok.lua', 'work/~/ok.p8', 'work/~/lib/ok.lua', 'work/~/sub/ok.lua',
    'abs/libs/mod.lua', 'abs/libs/ok.lua', 'abs/libs/init.lua', 'abs/libs/pkg/init.lua', 'abs/libs/lib/ok.lua',
    'abs/libs/lib/init.lua', 'abs/libs/ok/init.lua',
    HP + '/carts/ok.lua', HP + '/carts/shared.lua', HP + '/carts/canary.lua', HP + '/carts/canary.p8',
    HP + '/carts/game/ok.lua', HP + '/carts/game/ok.p8', HP + '/carts/game/lib/ok.lua', HP + '/carts/game/sub/ok.lua',
    HP + '/carts/game/sub/inc.lua', HP + '/carts/gamex/inc.lua', HP + '/carts/gamex/ok.lua',
    HP + '/cartsX/canary.lua', HP + '/cartsX/canary.p8', HP + '/cartsX/ok.lua', HP + '/cartsX/lib/ok.lua',
    HP + '/cartsX/sub/ok.lua',
)]
DIRS = ['build', 'work/proj/canary', 'abs/libs/canary', HP + '/carts/game/canary']

INC_SETTINGS = ('own', 'home', 'homex', 'tilde')
# (tilde: the cart lives in a directory literally named `~` below the working directory and is named `~/main.p8`:
# the file that is opened is work/~/main.p8, so that directory is the include root - not $HOME)
INC_BASE = {'own': 'work/proj', 'home': HP + '/carts/game', 'homex': HP + '/cartsX', 'tilde': 'work/~'}
INC_ROOT = {'own': 'work/proj', 'home': HP + '/carts', 'homex': HP + '/cartsX', 'tilde': 'work/~'}

ABS_LP = '{TMP}/abs/libs/?.lua;{TMP}/abs/libs/?/init.lua'
# name -> (load path template or None, via, hop require string, hop file)
REQ_SETTINGS = {
    'default': (None, None, 'lib/ok', 'work/proj/lib/ok.lua'),
    'rel_cli': ('lib/?.lua;?', 'cli', 'ok', 'work/proj/lib/ok.lua'),
    'relpkg_cli': ('?.lua;?/init.lua', 'cli', 'lib/ok', 'work/proj/lib/ok.lua'),
    'abs_cli': (ABS_LP, 'cli', 'mod', 'abs/libs/mod.lua'),
    'rel_env': ('lib/?.lua;?', 'env', 'ok', 'work/proj/lib/ok.lua'),
    'abs_env': (ABS_LP, 'env', 'mod', 'abs/libs/mod.lua'),
    # the project directory itself has a `?` in its name (legal on this file system)
    'qdir': (None, None, 'lib/ok', 'work/qu?ry/lib/ok.lua'),
    'qdir_rel': ('lib/?.lua;?', 'cli', 'ok', 'work/qu?ry/lib/ok.lua'),
    # --lua-path given AND PICO8_LUA_PATH set to another directory: the option wins (README), for nested requires
    # too; the environment variable's directory (abs/libsx, all canaries) is not a root of this build
    'abs_cli_env_other': (ABS_LP, 'cli', 'mod', 'abs/libs/mod.lua'),
    # a relative pattern whose text after the `?` looks like an absolute path (with the README's `?/init.lua` the
    # same happens at the file system root): it stays relative to the requiring file whatever `?` stands for - the
    # empty string included
    'q_then_abs_text': ('?{TMP}/abs/libsx/ok.lua;?.lua', 'cli', 'ok', 'work/proj/ok.lua'),
}
ENV_ALSO = {'abs_cli_env_other': '{TMP}/abs/libsx/?.lua;{TMP}/abs/libsx/?/init.lua;{TMP}/abs/libsx/?'}
MAIN_LUA = {'qdir': 'work/qu?ry/main.lua', 'qdir_rel': 'work/qu?ry/main.lua'}
REQ_ORDER = ('default', 'rel_cli', 'relpkg_cli', 'abs_cli', 'rel_env', 'abs_env', 'qdir', 'qdir_rel', 'abs_cli_env_other',
             'q_then_abs_text')
MUTABLE = ['work/~/main.p8', 'work/proj/main.p8', HP + '/carts/game/main.p8', HP + '/cartsX/main.p8', 'work/proj/main.lua', 'work/qu?ry/main.lua',
           'build/out.p8']
P8_HEAD = b'pico-8 cartridge // http://www.pico-8.com\nversion 8\n__lua__\n'


def _pkgdir():
    import pico8
    return os.path.realpath(os.path.dirname(pico8.__file__))


class Layout:
    """The directory tree of one shard / one replay. Static files are written once."""

    def __init__(self):
        self._td = tempfile.TemporaryDirectory(prefix='c12_')
        self.tmp = os.path.realpath(self._td.name)
        self.content = {}     # abs path -> bytes
        self.token = {}       # abs path -> unique token (bytes)
        self.pure = set()
        self._env = {}
        rows = [bytes(640)] * 205
        for d in DIRS:
            os.makedirs(self.p(d), exist_ok=True)
        for i, (rel, pure) in enumerate(FILES):
            path = self.p(rel)
            os.makedirs(os.path.dirname(path), exist_ok=True)
            tok = b'fm7f3a_%03dx' % i
            code = tok + b'="' + (MARK if pure else b'inside') + b'"\n'
            if rel.endswith('.p8.png'):
                data = reffmt.write_p8png(rows, bytes(0x4300), code, 8)
            elif rel.endswith('.p8'):
                data = reffmt.write_p8(8, code, bytes(0x4300))
            else:
                data = code
            with open(path, 'wb') as fh:
                fh.write(data)
            self.content[path] = data
            self.token[path] = tok
            if pure:
                self.pure.add(path)
        self.dirty = set()
        self.pkgdir = _pkgdir()

    def p(self, rel):
        return os.path.join(self.tmp, rel) if rel else self.tmp

    def sub(self, tpl):
        return tpl.replace('{TMPDOT}', self.tmp.strip('/').replace('/', '.')).replace('{TMP}', self.tmp)

    def tpl(self, s):
        return s.replace(self.tmp, '{TMP}').replace(self.tmp.strip('/').replace('/', '.'), '{TMPDOT}')

    # -- environment ------------------------------------------------------------------
    def setenv(self, name, value):
        if name not in self._env:
            self._env[name] = os.environ.get(name)
        if value is None:
            os.environ.pop(name, None)
        else:
            os.environ[name] = value

    def reset(self):
        for rel in MUTABLE:
            try:
                os.remove(self.p(rel))
            except FileNotFoundError:
                pass
        for path in sorted(self.dirty):
            with open(path, 'wb') as fh:
                fh.write(self.content[path])
        self.dirty.clear()
        self.setenv('HOME', self.p('home'))
        self.setenv('PICO8_LUA_PATH', None)

    def verify(self):
        """Static files unchanged and nothing new appeared (the layout is shared by the cases of a shard)."""
        self.reset()
        seen = set()
        for root, _dirs, files in os.walk(self.tmp):
            for f in files:
                seen.add(os.path.join(root, f))
        if seen != set(self.content):
            raise RuntimeError('layout changed: extra %r missing %r' % (sorted(seen - set(self.content))[:5],
                                                                       sorted(set(self.content) - seen)[:5]))
        for path, data in self.content.items():
            with open(path, 'rb') as fh:
                if fh.read() != data:
                    raise RuntimeError('layout file %s was modified' % path)

    def close(self):
        for name, old in self._env.items():
            if old is None:
                os.environ.pop(name, None)
            else:
                os.environ[name] = old
        self._env = {}
        self._td.cleanup()

    def __enter__(self):
        return self

    def __exit__(self, *_a):
        self.close()
        return False


# ----------------------------------------------------------------------------- per-mode geometry

def norm_case(case):
    c = {'mode': case['mode'], 'setting': case['setting'], 'S': case['S']}
    if c['mode'] == 'include':
        c['ext'] = case.get('ext', '.lua')
        if case.get('bare'):
            c['bare'] = True
        if case.get('cwd'):
            c['cwd'] = case['cwd']
    else:
        c['nested'] = bool(case.get('nested', False))
        if case.get('form', 'paren') != 'paren':
            c['form'] = case['form']
    return c


def patterns(lay, setting):
    lp = REQ_SETTINGS[setting][0]
    return lay.sub(lp if lp is not None else '?;?.lua').split(';')


def req_geometry(lay, case):
    """(requiring file, its directory, allowed roots) for the require("S") under test."""
    _lp, _via, _hop, hopfile = REQ_SETTINGS[case['setting']]
    reqfile = lay.p(hopfile) if case['nested'] else lay.p(MAIN_LUA.get(case['setting'], 'work/proj/main.lua'))
    reqdir = os.path.dirname(reqfile)
    roots = [reqdir]
    for pat in patterns(lay, case['setting']):
        fixed = os.path.dirname(pat.split('?')[0])
        d = os.path.normpath(fixed if fixed.startswith(os.sep) else os.path.join(reqdir, fixed))
        if d not in roots:
            roots.append(d)
    return reqfile, reqdir, roots


def inc_geometry(lay, case):
    base = lay.p(INC_BASE[case['setting']])
    root = lay.p(INC_ROOT[case['setting']])
    return os.path.join(base, 'main.p8'), base, [root]


def segments(S):
    return S.split('/')


def must_fail_require(S):
    return './' in S or S.startswith('/')


def inc_target(base, S, ext):
    return os.path.abspath(os.path.normpath(os.path.join(base, S + ext)))


def shapes(lay, case):
    """Tags of the confirmed-defect shapes this case belongs to (see VERIF_C12_AVOID)."""
    S = lay.sub(case['S'])
    tags = set()
    if case['mode'] == 'include':
        _cart, base, roots = inc_geometry(lay, case)
        t = inc_target(base, S, case['ext'])
        if not contains(roots[0], t):
            if t.startswith(roots[0]):
                tags.add('prefix_sibling')
            if case['setting'] == 'homex' and t.startswith(lay.p(HP + '/carts')):
                tags.add('carts_prefix')
    else:
        if not must_fail_require(S) and '..' in segments(S) and \
                any('?/' in pat for pat in patterns(lay, case['setting'])):
            tags.add('dotdot_pattern')
    return tags


# ----------------------------------------------------------------------------- running one case

def run_case(lay, case):
    """Execute one case on the layout and judge it. Returns (labels, info); raises Violation."""
    case = norm_case(case)
    S = lay.sub(case['S'])
    lay.reset()
    if case['mode'] == 'include':
        return _run_include(lay, case, S)
    return _run_require(lay, case, S)


def _judge(lay, case, guard, failed, err, result, roots, exact, must_fail, why):
    labels = []
    allowed = lambda p: p in exact or any(contains(r, p) for r in roots) or contains(lay.pkgdir, p)  # noqa: E731
    for op, mode, path in guard.records:
        if op in ('open', 'os.open'):
            if not allowed(path):
                raise Violation('%s opened %s (mode %r), which is outside the permitted roots %s'
                                % (describe(case), lay.tpl(path), mode, [lay.tpl(r) for r in roots]),
                                case, 'open-outside')
        elif not allowed(path):
            labels.append('probe_outside')
    leaked = None
    if MARK in result:
        leaked = 'the canary marker'
    for path, tok in lay.token.items():
        if tok in result and not allowed(path):
            leaked = 'the text of %s' % lay.tpl(path)
            break
    if leaked:
        raise Violation('%s: %s appears in the result' % (describe(case), leaked), case, 'canary-text')
    if must_fail and not failed:
        raise Violation('%s succeeded although %s' % (describe(case), why), case, 'not-rejected')
    inside = [p for p, tok in lay.token.items() if tok in result and allowed(p)]
    inside += [p for _m, p in guard.opened() if p in lay.content and p not in exact and allowed(p)]
    if failed:
        labels.append('rejected' if must_fail else 'failed_other')
        labels.append('err_' + type(err).__name__ if err is not None else 'err_returncode')
    elif inside:
        labels += ['inside_ok', 'inside_ok:' + case['setting']]
    else:
        labels.append('ok_nothing_read')
    return labels


def describe(case):
    if case['mode'] == 'include':
        return '`#include %s%s` (setting %s)' % (case['S'], case['ext'], case['setting'])
    return 'require("%s") (setting %s%s)' % (case['S'], case['setting'], ', nested' if case['nested'] else '')


def _run_include(lay, case, S):
    from pico8.game import file as pfile
    cart, base, roots = inc_geometry(lay, case)
    with open(cart, 'wb') as fh:
        fh.write(P8_HEAD + b'x0=1\n#include ' + (S + case['ext']).encode('utf-8') + b'\nx1=2\n')
    target = inc_target(base, S, case['ext'])
    outside = not contains(roots[0], target)
    err, result = None, b''
    cwd = os.getcwd()
    name = cart
    if case.get('bare'):
        # the cart named the way a user in its directory would: a bare relative file name
        os.chdir(os.path.dirname(cart))
        name = os.path.basename(cart)
    elif case.get('cwd') == 'parent':
        # the process works one / two directories above the cart (relative resp. absolute cart name): where the
        # process happens to stand gives no permission to read there
        os.chdir(os.path.dirname(os.path.dirname(cart)))
        name = os.path.relpath(cart)
    elif case.get('cwd') == 'top':
        os.chdir(lay.tmp)
    if case['setting'] == 'tilde':
        os.chdir(os.path.dirname(os.path.dirname(cart)))
        name = '~/main.p8'
    try:
        with FsGuard() as guard:
            try:
                g = pfile.from_file(name)
                result = b''.join(g.lua.to_lines())
            except Exception as e:      # failing is always acceptable; judged below
                err = e
    finally:
        os.chdir(cwd)
    labels = _judge(lay, case, guard, err is not None, err, result, roots, {cart}, outside,
                    'it resolves to %s, outside the include root %s' % (lay.tpl(target), lay.tpl(roots[0])))
    labels += ['mode_include', 'setting_' + case['setting'], 'ext_' + case['ext']]
    if case.get('bare'):
        labels.append('bare_relative_cart_name')
    if case.get('cwd'):
        labels.append('cwd_above_cart')
    if outside:
        labels.append('target_outside')
    return labels


def _run_require(lay, case, S):
    from pico8 import tool
    lp, via, hop, hopfile = REQ_SETTINGS[case['setting']]
    reqfile, _reqdir, roots = req_geometry(lay, case)
    main_lua = lay.p(MAIN_LUA.get(case['setting'], 'work/proj/main.lua'))
    out = lay.p('build/out.p8')
    form = case.get('form', 'paren')
    lit = S.encode('utf-8').replace(b'\\', b'\\\\')       # the Lua literal denoting S
    if form == 'paren':
        line = b'local r=require("' + lit + b'")\n'
    elif form == 'string':
        # Lua's call-with-a-string-literal syntax; whatever picotool does with it, it must not open outside files
        line = b'local r=require "' + lit + b'"\n'
    else:
        line = b"print(require '" + lit + b"')\n"
    exact = {main_lua, out}
    if case['nested']:
        hp = lay.p(hopfile)
        with open(hp, 'wb') as fh:
            fh.write(lay.content[hp] + line)
        lay.dirty.add(hp)
        exact.add(hp)
        with open(main_lua, 'wb') as fh:
            fh.write(b'm0=1\nlocal h=require("' + hop.encode() + b'")\n')
    else:
        with open(main_lua, 'wb') as fh:
            fh.write(b'm0=1\n' + line)
    args = ['build', out, '--lua', main_lua]
    cwd0 = os.getcwd()
    if case.get('bare_main'):
        # the main file named the way a user standing in the project directory names it: `--lua main.lua`
        os.chdir(os.path.dirname(main_lua))
        args = ['build', out, '--lua', os.path.basename(main_lua)]
    if via == 'cli':
        args += ['--lua-path', lay.sub(lp)]
    elif via == 'env':
        lay.setenv('PICO8_LUA_PATH', lay.sub(lp))
    if case['setting'] in ENV_ALSO:
        lay.setenv('PICO8_LUA_PATH', lay.sub(ENV_ALSO[case['setting']]))
    err, rc = None, None
    try:
        with FsGuard() as guard:
            try:
                rc = tool.main(args)
            except (Exception, SystemExit) as e:
                err = e
    finally:
        os.chdir(cwd0)
    lay.setenv('PICO8_LUA_PATH', None)
    failed = err is not None or rc not in (0, None)
    result = b''
    if os.path.exists(out):
        with open(out, 'rb') as fh:
            result = fh.read()
    if case['nested']:
        # the hop package itself is legitimately bundled; its own token is not evidence about S
        result = result.replace(lay.token[lay.p(hopfile)], b'', 1)
    labels = _judge(lay, case, guard, failed, err, result, roots, exact, must_fail_require(S),
                    'the README promises that a require() string containing "./" or "../" or starting with "/" is an error')
    labels += ['mode_require', 'setting_' + case['setting']]
    if case.get('bare_main'):
        labels.append('bare_relative_main_file_name')
        if not failed and not must_fail_require(S):
            labels.append('bare_relative_main_file_name_inside_ok')
    if case.get('form', 'paren') != 'paren':
        labels.append('require_string_call_form')
    if case['nested']:
        labels.append('nested')
    return labels


def classify(case):
    S = case['S']
    segs = segments(S)
    labs = []
    if '..' in segs:
        labs.append('dotdot')
    if S.startswith('/') or S.startswith('{TMP}'):
        labs.append('absolute')
    if any(s in SIBLINGS for s in segs) or (case['setting'] == 'homex' and 'carts' in segs):
        labs.append('sibling')
    if '~' in S:
        labs.append('tilde')
    if '\\' in S:
        labs.append('backslash')
    if '$' in S or '%' in S:
        labs.append('env_var')
    if '/' not in S.replace('{TMP}', '') and S.count('.') >= 3:
        labs.append('dotted_path')
    if any(s in ('Proj', 'PROJ', 'Libs', 'LIBS', 'Carts', 'CARTS', 'cartsx') for s in segs):
        labs.append('case_variant_sibling')
    return labs


def avoid_set(ctx):
    env = {t.strip() for t in os.environ.get('VERIF_C12_AVOID', '').split(',') if t.strip()}
    bad = env - set(AVOID_TAGS)
    if bad:
        raise RuntimeError('VERIF_C12_AVOID: unknown tag(s) %s; known: %s' % (sorted(bad), ', '.join(AVOID_TAGS)))
    return env | (set(ctx.open_findings) & set(AVOID_TAGS))


def execute(ctx, lay, case, avoid):
    tags = shapes(lay, case)
    if tags & avoid:
        for t in sorted(tags & avoid):
            ctx.stats.exclude(t)
        return
    labels = run_case(lay, case)
    cls = classify(case)
    key = (case['mode'], case['setting'], case.get('nested'), case.get('ext'), case['S'])
    outcome = [x for x in labels if x in ('rejected', 'failed_other', 'inside_ok', 'ok_nothing_read')]
    ctx.stats.case(key, bool(cls), dict(case, outcome=outcome[0] if outcome else '?'), labels + cls)


# ----------------------------------------------------------------------------- case spaces

def enum_strings(maxseg, sibling='projx'):
    """All <= maxseg segment sequences joined by '/', with optional leading/trailing '/'; shortest first."""
    alphabet = [sibling if s == 'projx' else s for s in SEGS]
    seen = set()
    out = []
    level = [[]]
    for n in range(1, maxseg + 1):
        level = [seq + [s] for seq in level for s in alphabet]
        batch = set()
        for seq in level:
            core = '/'.join(seq)
            for lead in ('', '/'):
                for trail in ('', '/'):
                    batch.add(lead + core + trail)
        for s in sorted(batch - seen):
            out.append(s)
        seen |= batch
    return out


def explicit_strings(lay, bases, exts):
    """Templates naming every layout file absolutely and relative to each base, +- extension, and with a long ../ run."""
    out = []
    for path in sorted(lay.content):
        stems = {path}
        for e in exts:
            if path.endswith(e):
                stems.add(path[:-len(e)])
        for stem in sorted(stems):
            out.append(stem)
            out.append('../' * 12 + stem.lstrip('/'))
            for b in bases:
                out.append(os.path.relpath(stem, b))
                out.append('sub/../' + os.path.relpath(stem, b))
    seen = set()
    res = []
    for s in out:
        t = lay.tpl(s)
        if t not in seen:
            seen.add(t)
            res.append(t)
    return res


def special_strings(lay, bases):
    """Strings that mean something to a shell, to Windows or to os.path helpers - `~` (home directory; $HOME holds
    canaries), backslash separators, environment variables, glob characters - built around the layout's files.  None
    of them names a file inside a root, so whatever picotool makes of them it must not open a file outside."""
    out = ['~', '~/', '~/canary', '~/canary.lua', '~/ok', '~/init', '~root/canary', '~/../canary', '~/.lexaloffle/pico-8/canary',
           '~/.lexaloffle/pico-8/ok', '~/.lexaloffle/pico-8/cartsXy/canary', 'lib/~/canary', '~/../home/canary',
           '$HOME/canary', '${HOME}/canary', '$HOME/.lexaloffle/pico-8/canary', '%HOME%/canary', '$TMPDIR/canary',
           '../*/canary', '*', '../proj?/canary', '../proj[x]/canary', '..\\canary', '..\\projx\\canary', '..\\projx\\ok',
           'lib\\..\\..\\projx/canary', '..\\..\\canary', 'sub\\..\\..\\canary', '\\canary', 'lib\\ok', '..\\proj-old\\canary',
           '..\\cartsXy\\canary', '..\\..\\cartsXy\\canary', '..\\canary', 'game\\..\\..\\canary', '..\\..\\..\\canary',
           'file://{TMP}/canary', '{TMP}\\canary', 'C:{TMP}/canary']
    home = lay.p('home')
    for path in sorted(lay.content):
        stems = {path} | {path[:-len(e)] for e in EXTS if path.endswith(e)}
        for stem in sorted(stems):
            # Lua's package convention spells directories with dots: the absolute path and the escaping relative
            # paths of every file, dot-encoded
            if '.' not in stem.strip('/').replace('/', ''):
                out.append('.' + stem.strip('/').replace('/', '.'))
                out.append(stem.strip('/').replace('/', '.'))
                for b in bases:
                    rel = os.path.relpath(stem, b)
                    if rel.startswith('../'):
                        out.append('..' + rel[3:].replace('../', '.').replace('/', '.'))
            if contains(home, stem):
                out.append('~/' + os.path.relpath(stem, home))
                out.append('$HOME/' + os.path.relpath(stem, home))
            for b in bases:
                rel = os.path.relpath(stem, b)
                if rel.startswith('..'):
                    out.append(rel.replace('/', '\\'))
                    out.append(rel.replace('../', '..\\', 1))
    seen = set()
    res = []
    for x in out:
        t = lay.tpl(x)
        if t not in seen:
            seen.add(t)
            res.append(t)
    return res


def include_cases(lay, maxseg):
    for setting in INC_SETTINGS:
        base = lay.p(INC_BASE[setting])
        if setting == 'tilde':
            # (a reduced string space: this setting is about how the cart itself is named)
            for S in enum_strings(2, SIB[setting]):
                yield {'mode': 'include', 'setting': setting, 'S': S, 'ext': '.lua'}
            for S in explicit_strings(lay, [base, lay.p(INC_ROOT[setting])], EXTS):
                yield {'mode': 'include', 'setting': setting, 'S': S, 'ext': '.lua'}
            continue
        for S in enum_strings(maxseg, SIB[setting]):
            for ext in EXTS[:2]:
                yield {'mode': 'include', 'setting': setting, 'S': S, 'ext': ext}
        for S in explicit_strings(lay, [base, lay.p(INC_ROOT[setting])], EXTS):
            for ext in EXTS:
                yield {'mode': 'include', 'setting': setting, 'S': S, 'ext': ext}
                if setting == 'own' and ext != '.p8.png':
                    yield {'mode': 'include', 'setting': setting, 'S': S, 'ext': ext, 'bare': True}
        if setting == 'own':
            for S in enum_strings(2, SIB[setting]):
                yield {'mode': 'include', 'setting': setting, 'S': S, 'ext': '.lua', 'bare': True}
        for cwd in ('parent', 'top'):
            for S in enum_strings(2, SIB[setting]):
                yield {'mode': 'include', 'setting': setting, 'S': S, 'ext': '.lua', 'cwd': cwd}
            for S in explicit_strings(lay, [base, lay.p(INC_ROOT[setting])], EXTS):
                if S.startswith('..') and S.count('/') <= 3:
                    yield {'mode': 'include', 'setting': setting, 'S': S, 'ext': '.lua', 'cwd': cwd}
        for S in special_strings(lay, [base, lay.p(INC_ROOT[setting])]):
            for ext in EXTS[:2] if S.count('\\') < 2 else EXTS[:1]:
                yield {'mode': 'include', 'setting': setting, 'S': S, 'ext': ext}


def require_cases(lay, maxseg):
    for setting in REQ_ORDER:
        for nested in (False, True):
            probe = {'mode': 'require', 'setting': setting, 'nested': nested, 'S': ''}
            _f, reqdir, roots = req_geometry(lay, probe)
            if setting.startswith('qdir') or setting in ENV_ALSO or setting == 'q_then_abs_text':
                # (a reduced string space: these settings are about the directory's name / about which of two
                # configured load paths applies, not about the strings)
                for S in enum_strings(2):
                    yield dict(probe, S=S)
                if setting in ENV_ALSO:
                    for S in ('mod', 'pkg', 'init', 'canary', 'ok/init', 'lib/ok'):
                        yield dict(probe, S=S)
                if setting == 'q_then_abs_text':
                    for S in ('', ' ', 'ok', 'lib'):
                        yield dict(probe, S=S)
                continue
            for S in enum_strings(maxseg):
                yield dict(probe, S=S)
            if setting in ('default', 'rel_cli', 'relpkg_cli') and not nested:
                for S in enum_strings(2):
                    yield dict(probe, S=S, bare_main=True)
            for S in explicit_strings(lay, roots, ['.lua', '/init.lua']):
                yield dict(probe, S=S)
                if setting in ('default', 'rel_cli', 'relpkg_cli') and not nested and not S.startswith('{TMP}'):
                    yield dict(probe, S=S, bare_main=True)
                if S.startswith('{TMP}'):
                    # the load path is a ';'-separated list: a require string carrying its own ';' must not be
                    # able to add entries to it
                    yield dict(probe, S='nolib;' + S)
                    yield dict(probe, S='ok;' + S)
            for S in ('x;..', 'ok;..', ';', 'a;b', ';/', 'ok;lib', 'nolib;lib/ok', ';ok', 'ok;'):
                yield dict(probe, S=S)
            for S in special_strings(lay, roots):
                yield dict(probe, S=S)
            for form in ('string', 'string_sq'):
                for S in explicit_strings(lay, roots, ['.lua', '/init.lua']):
                    if '"' not in S and "'" not in S:
                        yield dict(probe, S=S, form=form)
                for S in enum_strings(2):
                    yield dict(probe, S=S, form=form)


def _run_space(ctx, gen, maxseg):
    avoid = avoid_set(ctx)
    seen = set()
    i = 0
    with Layout() as lay:
        for case in gen(lay, maxseg):
            key = tuple(sorted(case.items()))
            if key in seen:
                continue
            seen.add(key)
            i += 1
            if i % ctx.nshards != ctx.shard:
                continue
            execute(ctx, lay, case, avoid)
        lay.verify()
    ctx.stats.extra['exhaustive'] = not avoid
    ctx.stats.extra['enumerated_max_segments'] = {maxseg}
    ctx.stats.extra['avoided_shapes'] = set(avoid)


def part_include(ctx):
    _run_space(ctx, include_cases, 3 if ctx.quick else 4)


def part_require(ctx):
    _run_space(ctx, require_cases, 3 if ctx.quick else 4)


# ----------------------------------------------------------------------------- random longer strings

PREFIXES = ['', '/', '{TMP}/work/proj/', '{TMP}/work/', '{TMP}/', '{TMP}/abs/libs/', '{TMP}/abs/', '../' * 9 + '{TMP}/',
            '{TMP}/' + HP + '/carts/', '{TMP}/' + HP + '/', '//', '{TMP}/work/proj/../', '{TMP}/abs/libs/../']


def decode_random(seed):
    ch = Choices(seed)
    if ch.below(2) == 0:
        case = {'mode': 'include', 'setting': ch.pick(INC_SETTINGS), 'ext': ch.pick(EXTS)}
    else:
        case = {'mode': 'require', 'setting': ch.pick(REQ_ORDER), 'nested': bool(ch.below(2))}
    prefix = ch.pick(PREFIXES) if ch.chance(96) else ''
    n = 4 + ch.below(5)
    segs = []
    for _ in range(n):
        segs.append(ch.pick(SEGS) if ch.chance(160) else ch.pick(RSEGS))
    S = prefix + '/'.join(segs) + ('/' if ch.chance(32) else '')
    if prefix.startswith('{TMP}') and S.startswith('//'):
        S = S[1:]
    case['S'] = S
    return case


def part_random(ctx):
    avoid = avoid_set(ctx)
    with Layout() as lay:
        def body(seed):
            execute(ctx, lay, decode_random(seed), avoid)
        ctx.hyp('random', st.binary(min_size=32, max_size=32), body, max_examples=400 if ctx.quick else 6000)
        lay.verify()
    ctx.stats.extra['avoided_shapes'] = set(avoid)


def parts(tier):
    if tier == 'quick':
        return [('include', part_include, 3), ('require', part_require, 11), ('random', part_random, 2)]
    return [('include', part_include, 3), ('require', part_require, 11), ('random', part_random, 2)]


def replay(case):
    with Layout() as lay:
        run_case(lay, case)


def vacuity(total, tier):
    msgs = []
    need = ['dotdot', 'absolute', 'sibling', 'tilde', 'backslash', 'env_var', 'dotted_path', 'case_variant_sibling', 'inside_ok', 'rejected', 'nested', 'mode_include', 'mode_require',
            'bare_relative_cart_name', 'cwd_above_cart', 'require_string_call_form',
            'target_outside', 'failed_other']
    need += ['setting_' + s for s in INC_SETTINGS + REQ_ORDER]
    need += ['inside_ok:' + s for s in INC_SETTINGS + REQ_ORDER]
    need += ['ext_' + e for e in EXTS]
    for lab in need:
        if total.classes.get(lab, 0) < 1:
            msgs.append('class %s never seen' % lab)
    return msgs
