"""C08 - parser consumes every valid program entirely and builds the tree it denotes."""
from hypothesis import strategies as st

from vlib.runner import Violation, show
from vlib.choices import Choices
from vlib import luagen, luamodel, reflex

PROPERTY = 'C08'
LEVEL = 'exploration'
RULE = ('programs = model syntax trees of the dialect drawn from picotool\'s own BNF (all statement kinds, '
        'call/index/field/method chains, tables, function literals, compound assignment, labels/goto, `?`, '
        'short-ifs with/without else in every context, optional `;`) up to nesting depth 3-4, rendered in random '
        'layouts (blanks, tabs, LF/CRLF line breaks, blank lines, line and long comments between any two tokens; '
        'minimal layout; one-statement-per-line layout). Oracle: Lua.from_lines accepts; every significant token '
        'lies inside the root node\'s span; the normalised picotool tree equals the model tree (statement kinds, '
        'nesting, chains, lists, table fields, expressions as in-order operator/operand sequences); every '
        'statement node spans exactly its model tokens. Non-trivial = >= 3 statements or nesting >= 2 or a '
        'short-if; distinct by source text.'
        ' A quarter of the programs are additionally parsed by a Parser object that parsed three other programs before (process_tokens is documented as repeatable), another quarter by one Lua object fed the source in pieces through successive update_from_lines calls (cut after line ends at top-level statement boundaries).'
        ' The warm-up programs of the reused parser include programs the parser rejects (error inside a short-if, a call, a block). LUAGEN strings include literals whose content is spelled like a keyword or symbol ("nil", "(", "[").'
        ' Part "long": flat programs of 100-500 statements (calls without arguments, empty tables, bare returns, local declarations).')
ASSUMPTIONS = ['the dialect is the grammar in pico8/lua/parser.py docstrings + README PICO-8 forms; programs outside '
               'it are not generated here', 'operator precedence/associativity is not compared (parser TODO says it '
               'is not modelled; the property promises source order)',
               'a short-if body never starts with `do`, `(`, a string or a table (picotool documents `if (c) do` as an '
               'ordinary if; the others continue the condition as a call)']
LEVEL_TEXT = ('Exploration: grammar-based generation of programs with an explicit layout dimension; the tree picotool '
              'builds is compared with the generating model, so both over-consumption (short-if fence) and '
              'mis-association are visible.')
LEVEL_NOTE = 'Trusted: vlib/luagen.py renderer (self-checked against REFLEX per case), vlib/luamodel.py normaliser.'
TECHNIQUE = 'grammar-based generation (Hypothesis choice stream) with model-tree equality and span oracles'


def model_depth(block, d=0):
    best = d
    for s in block:
        for x in s:
            if isinstance(x, list) and x and isinstance(x[0], tuple) and isinstance(x[0][0], str) and \
                    x[0][0] in STMT_KINDS:
                best = max(best, model_depth(x, d + 1))
            elif isinstance(x, list):
                for y in x:
                    if isinstance(y, tuple) and len(y) == 2 and isinstance(y[1], list):
                        best = max(best, model_depth(y[1], d + 1))
    return best


STMT_KINDS = {'assign', 'call', 'print', 'do', 'while', 'repeat', 'if', 'shortif', 'ifdo', 'fornum', 'forin', 'function',
              'localfunction', 'local', 'goto', 'label', 'break', 'return'}


def sig_positions(tokens):
    return [i for i, t in enumerate(tokens)
            if type(t).__name__ not in ('TokSpace', 'TokNewline', 'TokComment')]


WARMUP = (b'lives = 3\nfunction _update()\n if (btn(4)) lives -= 1\nend\n',
          b'w = window\n  :size(64, 32)\nprint("score: "..score, 0, 0, 7)\nflip()\n',
          b'for i=1,10 do t[i]=f(i)(i) end if (a) b() else c()\n',
          # programs the parser rejects (the error lies inside a short-if, a call, a block): a failed parse must not
          # change how the next program is parsed
          b'if (a) x =\ny = 2\n', b'if (a) b() else c(\n', b'function f(\n', b'x = {1, 2\ny = 3\n', b'while a do if (b) c(\n')


class _Parsed:
    def __init__(self, tokens, root):
        self.tokens, self.root = tokens, root


def parse(src, chunks, how):
    """how: 'fresh' (Lua.from_lines), 'incremental' (one Lua object fed the chunks by successive update_from_lines
    calls - each chunk ends where a complete program ends), 'reused_parser' (a Parser that has parsed other programs
    before; process_tokens is documented as callable repeatedly on one instance)."""
    from pico8.lua import lua as plua
    from pico8.lua import lexer, parser
    if how == 'fresh':
        from vlib import prelude
        prelude.lua()
        return plua.Lua.from_lines(chunks if chunks is not None else [src], version=8)
    if how == 'incremental':
        l = plua.Lua(version=8)
        for c in chunks:
            l.update_from_lines([c])
        return l
    p = parser.Parser(version=8)
    for w in WARMUP:
        lx = lexer.Lexer(version=8)
        lx.process_lines([w])
        try:
            p.process_tokens(lx.tokens)
        except parser.ParserError:
            pass
    lx = lexer.Lexer(version=8)
    lx.process_lines(chunks if chunks is not None else [src])
    p.process_tokens(lx.tokens)
    return _Parsed(p._tokens, p.root)


def program_prefix_chunks(src, stmts, ref):
    """Cut src after line ends that are followed by the first token of a top-level statement and do not lie inside
    a multi-line token: every prefix is then a complete program."""
    sig = reflex.significant(ref)
    starts = {sig[s[2]].start for s in stmts if s[4] == 0 and s[2] < len(sig)}
    cuts = []
    inside = set()
    for t in ref:
        if b'\n' in t.text and t.kind in ('string', 'comment'):
            inside.update(range(t.start + 1, t.end))
    pos = 0
    nxt = sorted(starts)
    for i in range(len(src)):
        if src[i:i + 1] == b'\n' and (i + 1) not in inside and i + 1 < len(src):
            # the next significant token after offset i+1
            following = [st for st in nxt if st >= i + 1]
            between = [t for t in sig if i + 1 <= t.start < (following[0] if following else len(src) + 1)]
            if following and not between:
                cuts.append(i + 1)
    chunks = []
    for c in cuts + [len(src)]:
        if c > pos:
            chunks.append(src[pos:c])
            pos = c
    return chunks


def check_program(src, model, stmts, case, chunks=None, toks=None, how='fresh'):
    try:
        l = parse(src, chunks, how)
    except Exception as e:
        raise Violation('valid program rejected (%s): %r -- %s' % (how, e, show(src, 200)), case, 'accept')
    root = l.root
    sig = sig_positions(l.tokens)
    if sig:
        if not (root.start_pos <= sig[0] and sig[-1] < root.end_pos):
            k = sum(1 for i in sig if i < root.end_pos)
            raise Violation('parser stopped after %d of %d tokens (at %s) -- %s'
                            % (k, len(sig), show(l.tokens[sig[k]]._data if k < len(sig) else b'', 20), show(src, 200)),
                            case, 'consumed')
    try:
        got = luamodel.canon_ast(root)
    except luamodel.Unexpected as e:
        raise Violation('tree has an unexpected shape: %s -- %s' % (e, show(src, 200)), case, 'tree-shape')
    want = luamodel.canon_model(model)
    if got != want:
        raise Violation('tree differs from the program: %s -- %s'
                        % (luamodel.first_difference(want, got), show(src, 200)), case, 'tree')
    # statement spans
    ordinal = {pos: k for k, pos in enumerate(sig)}
    spans = []
    for n in luamodel.stat_nodes(root):
        inside = [ordinal[p] for p in sig if n.start_pos <= p < n.end_pos]
        if not inside:
            raise Violation('statement node %s spans no token' % type(n).__name__, case, 'span')
        # a ';' on the line of a short-if is eaten by its one-line chunk: separators are not statements
        while len(inside) > 1 and bytes(l.tokens[sig[inside[-1]]]._data) == b';':
            inside.pop()
        spans.append((inside[0], inside[-1], type(n).__name__))
    spans.sort(key=lambda x: (x[0], -x[1]))
    want_spans = []
    for s in stmts:
        a, b = s[2], s[3]
        while toks is not None and b > a and toks[b].text == b';':
            b -= 1
        want_spans.append((a, b))
    want_spans.sort(key=lambda x: (x[0], -x[1]))
    got_spans = [(a, b) for a, b, _n in spans]
    if got_spans != want_spans:
        for (a, b, nm), w in zip(spans, want_spans):
            if (a, b) != w:
                raise Violation('%s node spans tokens %d..%d, the statement is tokens %d..%d -- %s'
                                % (nm, a, b, w[0], w[1], show(src, 200)), case, 'span')
        raise Violation('%d statement nodes for %d statements' % (len(got_spans), len(want_spans)), case, 'span')


def build(seed, mode, avoid=()):
    ch = Choices(seed)
    cfg = luagen.Cfg(max_depth=2 + ch.below(3), max_stmts=2 + ch.below(6), budget=60 + ch.below(120), avoid=avoid)
    model, tags = luagen.gen_program(ch, cfg)
    toks, stmts = luagen.render(model, ch)
    lay = luagen.layout(toks, ch, mode)
    return model, tags, toks, stmts, lay


def shortif_contexts(stmts, toks):
    """Labels describing where short-ifs sit."""
    labs = set()
    for sid, s, a, b, depth, parent in stmts:
        if s[0] != 'shortif':
            continue
        labs.add('shortif')
        if s[3] is not None:
            labs.add('shortif_else')
        if depth > 0:
            labs.add('shortif_in_block')
        if b == len(toks) - 1 or (b == len(toks) - 2 and toks[-1].semi):
            labs.add('shortif_at_end')
        else:
            labs.add('shortif_followed')
        if any(x[0] == 'shortif' for x in s[2]) or (s[3] and any(x[0] == 'shortif' for x in s[3])):
            labs.add('shortif_nested')
        if any(x[0] in ('return', 'break') for x in s[2]):
            labs.add('shortif_laststat')
        if not s[2] and s[3]:
            labs.add('shortif_empty_then_with_else')
        if toks[b].paren_follows or (b + 1 < len(toks) and toks[b + 1].semi and toks[b + 1].paren_follows):
            labs.add('shortif_then_line_starting_with_paren')
    if any(t.paren_follows for t in toks):
        labs.add('paren_statement_without_semicolon')
    return labs


def one(ctx, seed, mode):
    avoid = set(ctx.open_findings) if ctx is not None else set()
    model, tags, toks, stmts, lay = build(seed, mode, avoid)
    if luagen.verify(lay) is None:
        if ctx is not None:
            ctx.stats.exclude('generator_selfcheck_failed')
        return
    case = {'seed': bytes(seed), 'mode': mode, 'source': lay.src}
    check_program(lay.src, model, stmts, case, toks=toks)
    if b'\n' in lay.src and seed[0] % 4 == 0:
        chunks = [ln + b'\n' for ln in lay.src.split(b'\n')]
        chunks[-1] = chunks[-1][:-1]
        check_program(lay.src, model, stmts, dict(case, chunked=True), [c for c in chunks if c], toks=toks)
    extra = set()
    if seed[1] % 4 == 0:
        check_program(lay.src, model, stmts, dict(case, how='reused_parser'), toks=toks, how='reused_parser')
        extra.add('reused_parser')
    elif seed[1] % 4 == 1 and lay.nl != b'\r':
        ref = luagen.verify(lay)
        pieces = program_prefix_chunks(lay.src, stmts, ref)
        if len(pieces) >= 2:
            check_program(lay.src, model, stmts, dict(case, how='incremental'), pieces, toks=toks, how='incremental')
            extra.add('incremental_%d_pieces' % min(len(pieces), 4))
            extra.add('incremental')
    if ctx is not None:
        labs = sorted(shortif_contexts(stmts, toks) | {'mode_' + mode} | extra |
                      ({'continue_idiom'} & set(tags)))
        if lay.comments:
            labs.append('comments')
        nontrivial = len(stmts) >= 3 or 'shortif' in labs or any(s[4] >= 1 for s in stmts)
        ctx.stats.case(lay.src, nontrivial, {'source': show(lay.src, 160), 'statements': len(stmts), 'labels': labs},
                       labs)


def part_free(ctx):
    ctx.hyp('free', st.binary(min_size=700, max_size=700), lambda s: one(ctx, s, 'free'),
            max_examples=700 if ctx.quick else 10000)


def part_minimal(ctx):
    ctx.hyp('minimal', st.binary(min_size=700, max_size=700), lambda s: one(ctx, s, 'minimal'),
            max_examples=500 if ctx.quick else 5000)


def part_lines(ctx):
    ctx.hyp('lines', st.binary(min_size=700, max_size=700), lambda s: one(ctx, s, 'lines'),
            max_examples=500 if ctx.quick else 5000)


def long_model(n, ch):
    """A flat program of n simple statements - the kinds that parse an EMPTY expression somewhere: calls without
    arguments, empty tables, bare returns, `local x` - with a few generated statements in between."""
    name = lambda b: ('chain', ('name', b), [])
    block = []
    for i in range(n):
        k = ch.below(8)
        nm = b'f%d' % (i % 37)
        if k <= 2:
            block.append(('call', ('chain', ('name', nm), [('call', ('args', []))])))
        elif k == 3:
            block.append(('call', ('chain', ('name', b'o'), [('method', nm, ('args', []))])))
        elif k == 4:
            block.append(('assign', [name(b't%d' % (i % 11))], b'=', [('exp', [('table', [])])]))
        elif k == 5:
            block.append(('function', [b'g%d' % i], None, ([], False, [('return', None)])))
        elif k == 6:
            block.append(('local', [b'v%d' % (i % 23)], None))
        else:
            block.append(('assign', [name(b'x')], b'=', [('exp', [('chain', ('name', nm), [('call', ('args', []))]),
                                                                    ('binop', b'+'), ('number', b'%d' % i)])]))
    return block


def part_long(ctx):
    def body(v):
        seed, n, mode = v
        ch = Choices(seed)
        model = long_model(n, ch)
        toks, stmts = luagen.render(model, ch)
        lay = luagen.layout(toks, ch, mode, comments=False)
        if luagen.verify(lay) is None:
            ctx.stats.exclude('generator_selfcheck_failed')
            return
        case = {'long': n, 'seed': bytes(seed), 'mode': mode, 'source': lay.src}
        check_program(lay.src, model, stmts, case, toks=toks)
        ctx.stats.case(lay.src, True, {'statements': n, 'mode': mode, 'source': show(lay.src, 80)}, ['long_program', 'mode_' + mode])
    ctx.hyp('long', st.tuples(st.binary(min_size=600, max_size=600), st.integers(100, 500), st.sampled_from(['lines', 'minimal', 'free'])),
            body, max_examples=6 if ctx.quick else 40, shrink=False)


def parts(tier):
    if tier == 'quick':
        return [('free', part_free, 6), ('minimal', part_minimal, 2), ('lines', part_lines, 2), ('long', part_long, 2)]
    return [('free', part_free, 9), ('minimal', part_minimal, 3), ('lines', part_lines, 2), ('long', part_long, 2)]


def replay(case):
    if 'long' in case:
        ch = Choices(case['seed'])
        model = long_model(case['long'], ch)
        toks, stmts = luagen.render(model, ch)
        lay = luagen.layout(toks, ch, case['mode'], comments=False)
        check_program(lay.src, model, stmts, case, toks=toks)
    elif 'seed' in case:
        model, tags, toks, stmts, lay = build(case['seed'], case.get('mode', 'free'))
        if luagen.verify(lay) is None:
            return
        check_program(lay.src, model, stmts, case, toks=toks)
        if case.get('chunked'):
            chunks = [ln + b'\n' for ln in lay.src.split(b'\n')]
            chunks[-1] = chunks[-1][:-1]
            check_program(lay.src, model, stmts, case, [c for c in chunks if c], toks=toks)
        if case.get('how') == 'reused_parser':
            check_program(lay.src, model, stmts, case, toks=toks, how='reused_parser')
        if case.get('how') == 'incremental':
            pieces = program_prefix_chunks(lay.src, stmts, luagen.verify(lay))
            check_program(lay.src, model, stmts, case, pieces, toks=toks, how='incremental')


def vacuity(total, tier):
    msgs = []
    ev = max(1, total.evaluations)
    if total.classes.get('shortif', 0) < 0.10 * ev:
        msgs.append('only %d of %d programs contain a short-if' % (total.classes.get('shortif', 0), ev))
    for lab in ('shortif_else', 'shortif_in_block', 'shortif_at_end', 'shortif_followed', 'shortif_laststat',
                'comments', 'mode_minimal', 'mode_lines', 'reused_parser', 'incremental', 'long_program',
                'shortif_empty_then_with_else', 'shortif_then_line_starting_with_paren',
                'paren_statement_without_semicolon', 'continue_idiom'):
        if total.classes.get(lab, 0) < 5:
            msgs.append('class %s seen %d times' % (lab, total.classes.get(lab, 0)))
    if total.excluded.get('generator_selfcheck_failed', 0) > 0.02 * ev:
        msgs.append('generator self-check failed on %d cases' % total.excluded['generator_selfcheck_failed'])
    return msgs
