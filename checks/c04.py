"""C04 - .p8.png write/read round trip preserves cart and label picture; no truncated writes."""
import os
import struct
import tempfile

from hypothesis import strategies as st

from vlib.runner import Violation, show
from vlib.choices import Choices, expand
from vlib import cartgen, reffmt, refpng

PROPERTY = 'C04'
LEVEL = 'exploration'
RULE = ('carts = (region memory from a mode mixture, version 0..255, Lua code from classes {empty, 1-3 chars, '
        'filler with all byte values, highly compressible, incompressible, mentions _update60} and, in part '
        '"boundary", sizes constructed around the three limits: raw length 0x3d00 +-1 with incompressible text, '
        'compressed stream + 8-byte header around 0x3d00 with raw length above it, and text that fits neither) x '
        '{destination absent, destination an existing 160x205 RGBA PNG with random pixels}. Each is written with '
        'file.to_file(game, x.p8.png); the file is decoded by an independent PNG decoder + reference stego and '
        ':c: decoders and by file.from_file; part "convert" runs .p8 -> .p8.png -> .p8. Non-trivial = non-empty '
        'code and >= 2 regions with >= 16 distinct byte values; distinct by generating seed.'
        ' An existing destination is a PNG as picotool/PICO-8 write it or as an image editor saves it (Adam7 interlaced, any filter type, several IDAT chunks, ancillary chunks pHYs/gAMA/tEXt/bKGD/tIME/sBIT/sRGB/iTXt/private), encoded by REFPNG.'
        ' The compressed boundary also holds a cart whose header + stream fill the code area exactly with a two-byte token at the very end.'
        " A quarter of the small carts carry a Lua object whose version differs from the cart's (a cart assembled from parts); half of the writes pass label_fname=None explicitly; incompressible code mentioning _update60 is a code class."
        ' sBIT chunks of the destination also come with fewer than 8 significant bits.')
ASSUMPTIONS = ['"fits" := len(code) <= 65535 and (len(code) <= 0x3d00 or 8 + len(compress_code(code)) <= 0x3d00), '
               'and for a version-0 cart (which every reader, PICO-8 included, takes as uncompressed) '
               'len(code) <= 0x3d00; picotool\'s own compressor is trusted for the stream *size* only',
               'code containing NUL cannot be represented in the code area and is not generated',
               'read-back code may differ from the written code by one trailing newline and CR->space, as the '
               'property states']
LEVEL_TEXT = ('Exploration: generated carts incl. constructed size-boundary cases; the written file is judged by '
              'decoders that share no code with picotool or pypng, so a mistake shared by writer and reader shows.')
LEVEL_NOTE = 'Trusted: vlib/refpng.py, vlib/reffmt.py, zlib; compress_code for the size of the compressed stream.'
TECHNIQUE = 'Hypothesis-generated carts + constructed boundary sizes; round-trip and differential (independent PNG/stego/:c: decoders) oracles'

AREA = 0x3d00
# row lengths that divide some distance in 3100..3140 (the compressor's window edge is 3120)
ROW_LENGTHS = sorted({d for n in range(3100, 3141) for d in range(6, 67) if n % d == 0})
_compress_cache = {}


def _patch_compress():
    """Pass-through spy on compress_code: records the stream length per text (compression is O(n*3120), seconds
    for 16 KB, and the oracle needs the size too).  The object picotool's function returns is handed on untouched,
    so nothing the code under test does with it - caching, mutating - is masked."""
    from pico8.game import compress
    if getattr(compress.compress_code, '_verif_spy', False):
        return
    orig = compress.compress_code

    def spy(code):
        out = orig(code)
        if len(_compress_cache) > 16:
            _compress_cache.clear()
        _compress_cache[bytes(code)] = len(out)
        return out
    spy._verif_spy = True
    compress.compress_code = spy


def fits(code, version, case=None):
    from pico8.game import compress
    if len(code) > 65535:
        return False
    if len(code) <= AREA:
        return True
    if version == 0:
        return False
    try:
        n = _compress_cache.get(bytes(code))
        if n is None:
            n = len(compress.compress_code(bytes(code)))
    except Exception as e:
        raise Violation('compress_code raised %r on %d bytes of valid code (cannot even decide whether the cart fits)'
                        % (e, len(code)), case or {}, 'compress-raises')
    return 8 + n <= AREA


def label_rows_for(seed):
    pix = expand(b'pix' + seed, 160 * 205 * 4)
    return [pix[y * 640:(y + 1) * 640] for y in range(205)]


ANCILLARY = (
    (b'pHYs', struct.pack('>IIB', 2835, 2835, 1)), (b'gAMA', struct.pack('>I', 45455)),
    (b'tEXt', b'Software\x00paint'), (b'bKGD', struct.pack('>HHH', 1, 2, 3)),
    (b'tIME', struct.pack('>HBBBBB', 2020, 1, 2, 3, 4, 5)), (b'sBIT', b'\x08\x08\x08\x08'),
    (b'sRGB', b'\x00'), (b'iTXt', b'Comment\x00\x00\x00\x00\x00label'), (b'prIv', b'editor private data'),
    (b'sBIT', b'\x05\x05\x05\x05'), (b'sBIT', b'\x04\x06\x05\x08'),
    # a suggested palette: PLTE is allowed in truecolour images (PNG spec 11.2.3), some editors write one
    (b'PLTE', bytes(range(48))))


def dest_flavour(dest_seed):
    """How the existing destination was saved: picotool's own output is a plain non-interlaced PNG, but the label
    picture may come from an image editor ("or appropriately spec'd .png file", says the writer's docstring):
    same size, RGBA, 8 bits - but interlaced, filtered, with several IDAT chunks or ancillary chunks."""
    if len(dest_seed) < 8:
        return {}, 'plain'
    f = dest_seed[4:8]
    kw, names = {}, []
    if f[0] % 3 == 0:
        kw['interlace'] = True
        names.append('interlaced')
    if f[1] % 3 == 0:
        kw['filters'] = [(1,), (2,), (3,), (4,), (0, 1, 2, 3, 4)][f[1] // 3 % 5]
        names.append('filtered')
    if f[2] % 4 == 0:
        kw['idat_split'] = 4096 + 97 * (f[2] // 4)
        names.append('split_idat')
    if f[3] % 2 == 0:
        k = f[3] // 2
        kw['ancillary'] = [ANCILLARY[(k + i * 4) % len(ANCILLARY)] for i in range(1 + k % 3)]
        kw['ancillary'] = list(dict((t, b) for t, b in kw['ancillary']).items())
        names.append('ancillary')
        names.extend('chunk_' + t.decode() for t, _b in kw['ancillary'])
    return kw, '+'.join(names) or 'plain'


_empty_rows = None


def empty_label_rows():
    global _empty_rows
    if _empty_rows is None:
        from pico8.game.formatter import p8png
        w, h, planes, rows = refpng.decode(open(p8png.EMPTY_LABEL_FNAME, 'rb').read())
        assert (w, h, planes) == (160, 205, 4)
        _empty_rows = rows
    return _empty_rows


def norm_ok(read_code, written_code):
    n0 = written_code.replace(b'\r', b' ')
    return read_code in (n0, n0 + b'\n') or (n0.endswith(b'\n') and read_code == n0[:-1])


def check_write(mem, version, code, dest_seed, case):
    """Write a cart to x.p8.png and judge the file. Returns labels."""
    import shutil
    sd = tempfile.mkdtemp(prefix='c04s_')      # where the file a cart was loaded from lives (until after the write)
    try:
        return _check_write(mem, version, code, dest_seed, case, sd)
    finally:
        shutil.rmtree(sd, ignore_errors=True)


def _check_write(mem, version, code, dest_seed, case, sd):
    from pico8.game import file as pfile
    from vlib import prelude
    _patch_compress()
    prelude.files()
    labs = []
    try:
        origin = case.get('origin')
        if origin == 'labelled':
            # the cart carries a label picture of its own (as one loaded from a .p8 with a __label__ section does)
            g = cartgen.make_game(mem, version=version, code=code, label=expand(b'cartlabel' + bytes(case.get('seed', b'')), 8192))
            labs.append('cart_with_own_label')
        elif origin in ('from_png', 'from_p8_labelled'):
            # the cart was loaded from a file (it remembers its file name) whose picture / label is not the blank one
            if True:
                if origin == 'from_png':
                    sp = os.path.join(sd, 'source.p8.png')
                    with open(sp, 'wb') as fh:
                        fh.write(reffmt.write_p8png(label_rows_for(b'srcl'), mem, code if len(code) <= AREA and b'\0' not in code
                                                    and not code.startswith(b':c:') else b'', version))
                else:
                    sp = os.path.join(sd, 'source.p8')
                    with open(sp, 'wb') as fh:
                        fh.write(reffmt.write_p8(version, b'', mem, label=expand(b'srclabel', 8192)))
                g = pfile.from_file(sp)
            from pico8.lua import lua as plua
            g.lua = plua.Lua.from_lines([code], version=g.version)
            if origin == 'from_p8_labelled':
                mem = cartgen.flat(g)         # (the .p8 format has no place for one bit of each music pattern)
            labs.append('cart_loaded_' + origin)
        else:
            g = cartgen.make_game(mem, version=version, code=code)
        if case.get('lua_version') is not None:
            # a cart assembled from parts (as `build --lua other.p8` does): its Lua object carries another version
            # number than the cart; what the file says and how it is read goes by the cart's version
            from pico8.lua import lua as plua
            g.lua = plua.Lua.from_lines([code], version=case['lua_version'])
            labs.append('lua_object_of_other_version')
    except Exception as e:
        raise Violation('cannot build a cart from generated source: %r' % e, case, 'build')
    # the label argument left out, or passed explicitly as None (documented as "no override")
    label_kw = {'label_fname': None} if case.get('explicit_none_label') else {}
    if label_kw:
        labs.append('label_fname_none_passed')
    code0 = b''.join(g.lua.to_lines())
    with tempfile.TemporaryDirectory(prefix='c04_') as td:
        path = os.path.join(td, 'cart.p8.png')
        if dest_seed is not None:
            rows0 = label_rows_for(dest_seed[:4])
            kw, fl = dest_flavour(dest_seed)
            before = refpng.encode(160, 205, rows0, **kw)
            with open(path, 'wb') as fh:
                fh.write(before)
            labs.append('dest_exists')
            labs.extend('dest_' + n for n in fl.split('+'))
        else:
            rows0 = empty_label_rows()
            before = None
            labs.append('dest_absent')
        try:
            pfile.to_file(g, path, **label_kw)
            err = None
        except Exception as e:
            err = e
        should_fit = fits(code0, version, case)     # (uses the stream size the spy recorded during the write)
        if err is not None:
            if should_fit:
                raise Violation('writing a cart whose %d-byte code fits raised %r' % (len(code0), err), case, 'refused-fitting')
            now = open(path, 'rb').read() if os.path.exists(path) else None
            if now != before:
                raise Violation('refused write changed/created the destination', case, 'refused-dest')
            if os.listdir(td) != (['cart.p8.png'] if before is not None else []):
                raise Violation('refused write left stray files %r' % os.listdir(td), case, 'refused-dest')
            labs.append('refused')
            return labs
        if not should_fit:
            raise Violation('cart with %d bytes of code that do not fit the code area was written anyway '
                            '(truncated/overflowing)' % len(code0), case, 'not-refused')
        data = open(path, 'rb').read()
        try:
            r = reffmt.read_p8png(data)
        except (refpng.PNGError, reffmt.FormatError) as e:
            raise Violation('written file is not a valid .p8.png by the format description: %s' % e, case, 'png-valid')
        if (r['width'], r['height'], r['planes']) != (160, 205, 4):
            raise Violation('written image is %dx%d/%d planes' % (r['width'], r['height'], r['planes']), case, 'png-shape')
        for y in range(205):
            a, b = r['rows'][y], rows0[y]
            if a != b and any((a[i] ^ b[i]) & 0xfc for i in range(640)):
                i = [i for i in range(640) if (a[i] ^ b[i]) & 0xfc][0]
                raise Violation('label pixel row %d x %d channel %d: upper six bits 0x%02x, label source has 0x%02x'
                                % (y, i // 4, i % 4, a[i] & 0xfc, b[i] & 0xfc), case, 'label-bits')
        if r['mem'] != bytes(mem):
            bad = [n for (n, lo, hi) in cartgen.REGIONS if r['mem'][lo:hi] != mem[lo:hi]]
            raise Violation('regions %s in the written file differ from the cart (reference stego decoder)' % bad,
                            case, 'regions-ref')
        if r['version'] != version:
            raise Violation('version byte at 0x8000 is %d, cart version is %d' % (r['version'], version), case, 'version-ref')
        ref_code = reffmt.strip_shim(r['code']) if r['code_kind'] == 'compressed' else r['code']
        if not (norm_ok(ref_code, code0) or norm_ok(r['code'], code0) or ref_code == code0):
            raise Violation('code area (%s) decodes by the format description to %s, cart code is %s'
                            % (r['code_kind'], show(ref_code, 100), show(code0, 100)), case, 'code-ref')
        labs.append('stored_' + r['code_kind'])
        if r['code_kind'] == 'compressed' and version == 0:
            raise Violation('version-0 cart written with a compressed code area (readers take v0 code as raw text)',
                            case, 'v0-compressed')
        try:
            g2 = pfile.from_file(path)
        except Exception as e:
            raise Violation('re-reading the written .p8.png raised %r' % e, case, 'read')
        if cartgen.flat(g2) != bytes(mem):
            bad = [n for (n, lo, hi), d in zip(cartgen.REGIONS, cartgen.region_datas(g2)) if d != mem[lo:hi]]
            raise Violation('regions %s changed in the .p8.png round trip' % bad, case, 'regions')
        if g2.version != version:
            raise Violation('version %d came back as %r' % (version, g2.version), case, 'version')
        code1 = b''.join(g2.lua.to_lines())
        if not norm_ok(code1, code0):
            raise Violation('code changed in the .p8.png round trip: wrote %s, read %s'
                            % (show(code0, 100), show(code1, 100)), case, 'code')
        if case.get('twice'):
            # the same cart written again in the same process, now over its own output
            try:
                pfile.to_file(g, path, **label_kw)
            except Exception as e:
                raise Violation('writing the same fitting cart a second time raised %r' % e, case, 'second-write')
            data2 = open(path, 'rb').read()
            try:
                r2 = reffmt.read_p8png(data2)
            except (refpng.PNGError, reffmt.FormatError) as e:
                raise Violation('second write: not a valid .p8.png: %s' % e, case, 'second-write')
            if r2['mem'] != bytes(mem) or r2['version'] != version or r2['code'] != r['code']:
                raise Violation('second write of the same cart stores different contents than the first '
                                '(code kind %s -> %s)' % (r['code_kind'], r2['code_kind']), case, 'second-write')
            labs.append('written_twice')
    return labs


def gen_small(seed):
    ch = Choices(seed)
    mem, modes = cartgen.memory_from_choices(ch)
    version = ch.pick([8, 0, 1, 5, 33, 255, ch.below(256)]) if ch.chance(200) else ch.below(256)
    k = ch.below(8)
    if k == 0:
        code, ck = b'', 'empty'
    elif k == 1:
        code, ck = [b'a', b'x=1', b'?1', b'\n', b' ', b'--', b'a\n'][ch.below(7)], 'tiny'
    elif k == 2:
        code, _ = cartgen.filler_code(ch, max_lines=12, crlf=ch.chance(30))
        code, ck = code.replace(b'\x00', b'\x01'), 'filler'
    elif k == 3:
        line = b'x=%d y="%s"\n' % (ch.below(100), bytes(97 + ch.below(26) for _ in range(1 + ch.below(5))))
        code, ck = line * (2 + ch.below(40)), 'compressible'
    elif k == 4:
        n = 1 + ch.below(600)
        body = bytes(b if b not in (0, 10, 13) else 0x2e for b in expand(b'inc' + ch.take(3), n))
        code, ck = b'--' + body + (b'\n' if ch.chance(128) else b''), 'incompressible'
        if ch.chance(100):
            # stored as plain text although it mentions _update60 (the compatibility suffix belongs to compressed code only)
            code, ck = b'function _update60()end\n' + code, 'incompressible_update60'
    elif k == 5:
        code, _ = cartgen.filler_code(ch, max_lines=6)
        code = code.replace(b'\x00', b'\x01') + (b'\n' if code and not code.endswith(b'\n') else b'')
        code += b'function _update60()\n x+=1\nend\n' * (1 + ch.below(3)) + [b'', b'\n', b'y=2', b'-- e',
                 # the author's own last line looks like the compatibility line PICO-8 appends, but is not it
                 b'if(_update60)_update=function()_update60()end', b'if(_update60)_update=function()_update60()end\n',
                 b'if(_update60)_update=function()_update60()_update60()_update60()end',
                 b'if(_update60)_update=function()_update_buttons()end'][ch.below(8)]
        ck = 'update60'
    elif k == 6:
        line = b'function f%d() return %d end\n' % (ch.below(9), ch.below(9))
        code, ck = line * (20 + ch.below(300)), 'large_compressible'
    else:
        # data table with fixed-length rows: long-range repeats at distances that are multiples of the row
        # length, chosen among the divisors of numbers around the 3120-byte window edge
        rowlen = ch.pick(ROW_LENGTHS)
        nrows = (3180 + ch.below(1400)) // rowlen + 1
        rows = []
        digits = b'0123456789abcdef'
        for r in range(nrows):
            body = bytes(digits[(r * 7 + i * (1 + ch.below(3)) + (i >> 2)) % 16] for i in range(rowlen - 4))
            rows.append(b'"' + body + b'",\n')
        if ch.chance(100):
            rows = [rows[0]] * nrows            # identical rows: the farthest match wins ties
        code, ck = b't={\n' + b''.join(rows) + b'}\n', 'table_rows'
    dest = ch.take(4 if ch.chance(100) else 8) if ch.chance(128) else None
    return mem, modes, version, code, ck, dest


def small_case(seed, version):
    case = {'seed': bytes(seed), 'kind': 'small', 'twice': seed[0] % 3 == 0}
    if seed[-1] % 4 == 1:
        case['lua_version'] = 8 if version == 0 else (0 if seed[-2] % 2 else version + 1)
    if seed[-3] % 2 == 1:
        case['explicit_none_label'] = True
    if seed[-4] % 4 in (1, 2, 3):
        case['origin'] = ('labelled', 'from_png', 'from_p8_labelled')[seed[-4] % 4 - 1]
    return case


def part_small(ctx):
    def body(seed):
        mem, modes, version, code, ck, dest = gen_small(seed)
        labs = check_write(mem, version, code, dest, small_case(seed, version))
        rich = sum(1 for (_n, lo, hi) in cartgen.REGIONS if cartgen.distinct_values(mem[lo:hi]) >= 16)
        if version == 0:
            labs.append('version0')
        ctx.stats.case(seed, rich >= 2 and len(code) > 0,
                       {'version': version, 'code_class': ck, 'code': show(code, 60), 'modes': modes,
                        'dest': 'existing' if dest else 'absent', 'labels': labs},
                       labs + ['code_' + ck])
    ctx.hyp('small', st.binary(min_size=120, max_size=120), body, max_examples=70 if ctx.quick else 400)


# ---------------------------------------------------------------- size boundaries

def incompressible(n, salt):
    """n bytes of comment text made of non-table bytes (each costs 2 bytes compressed)."""
    body = bytearray()
    raw = expand(b'big' + salt, n)
    for i in range(n):
        body.append(0x80 + raw[i] % 0x7f)
    for i in range(0, n, 180):           # keep lines short; '\n--' is table text but rare
        if i + 3 <= n:
            body[i:i + 3] = b'\n--'
    body[0:2] = b'--'
    if n >= 3 and body[2] == 0x5b:
        body[2] = 0x80
    return bytes(body[:n])


def semi_compressible(n, salt):
    """lower-case/digit noise in comments: compresses to ~0.93-0.97 n."""
    raw = expand(b'semi' + salt, n)
    alpha = b'abcdefghijklmnopqrstuvwxyz0123456789'
    body = bytearray(alpha[b % 36] for b in raw)
    for i in range(0, n, 160):
        if i + 3 <= n:
            body[i:i + 3] = b'\n--'
    body[0:2] = b'--'
    return bytes(body[:n])


class _SafeCompress:
    """compress_code with any exception turned into a violation (it must compress every text)."""

    @staticmethod
    def compress_code(code):
        from pico8.game import compress as real
        try:
            return real.compress_code(code)
        except Exception as e:
            raise Violation('compress_code raised %r on %d bytes of valid code' % (e, len(code)),
                            {'kind': 'compress', 'code': bytes(code)}, 'compress-raises')


def boundary_cases(salt, which):
    """Yield (label, code) around one of the limits."""
    compress = _SafeCompress
    _patch_compress()
    if which == 'raw':
        for d in (-1, 0, 1):
            yield 'raw_limit%+d' % d, incompressible(AREA + d, salt)
    elif which == 'compressed':
        base = semi_compressible(17600, salt)
        stream = bytes(compress.compress_code(base))
        ops, _c, _p = reffmt.parse_stream(stream)
        # cumulative (input length, stream length) after each op
        pos_in = pos_out = 0
        table = []
        for op in ops:
            pos_in += op[2] if op[0] == 'blk' else 1
            pos_out += 1 if op[0] == 'lit' else 2
            table.append((pos_in, pos_out))
        target = AREA - 8
        idx = max(i for i, (_a, b) in enumerate(table) if b <= target)
        for d in (-2, 0, 1, 3):
            j = min(max(idx + d, 0), len(table) - 1)
            yield 'compressed_limit%+d' % d, base[:table[j][0]]
        # header + stream fill the area EXACTLY and the stream ends in a two-byte token (an escaped byte): the last
        # byte of the area is the second byte of that token
        for j in range(idx, max(idx - 40, 0), -1):
            if table[j][1] != target - 2:
                continue
            text = base[:table[j][0]] + bytes((0x80 + salt[1] % 0x70,))
            st2 = bytes(compress.compress_code(text))
            if len(st2) == target and reffmt.parse_stream(st2)[0][-1][0] in ('esc', 'blk'):
                yield 'compressed_exact_fill', text
                break
    elif which == 'header':
        # raw text fits exactly, compressed stream is smaller than the text but stream + 8-byte header
        # is not: the writer must fall back to the plain text
        base = bytearray(semi_compressible(AREA - (salt[0] % 3), salt))
        free = [i for i in range(4, len(base)) if base[i] not in b'\n-' and base[i - 1] != 0x2d]
        used = 0
        for _it in range(8):
            c = len(compress.compress_code(bytes(base)))
            if len(base) - 8 < c < len(base):
                yield 'header_edge', bytes(base)
                return
            deficit = (len(base) - 4) - c
            if deficit > 0:
                step = max(1, (len(free) - used) // (deficit + 1))
                for k in range(deficit):
                    pos = free[(used + k * step) % len(free)]
                    base[pos] = 0x80 + (pos * 7) % 0x70
                used += deficit * step
            else:
                n = 0
                for i in range(len(base)):
                    if base[i] >= 0x80:
                        base[i] = 0x61 + i % 26
                        n += 1
                        if n >= -deficit:
                            break
        yield 'header_edge_unreached', b'-- unreached\n'
    else:
        yield 'neither_fits', incompressible(AREA + 200 + salt[0], salt)
        yield 'over_64k', (b'-- ' + b'x' * 60 + b'\n') * 1100


def part_boundary(ctx):
    which = ['raw', 'compressed', 'neither', 'header'][ctx.shard % 4]

    def body(v):
        salt, dest, ver = v
        mem, modes = cartgen.memory_from_seed(b'\x01' + salt)
        for label, code in boundary_cases(salt, which):
            labs = check_write(mem, ver, code, dest, {'kind': 'boundary', 'which': which, 'salt': salt,
                                                       'label': label, 'dest': dest, 'version': ver, 'twice': True})
            ctx.stats.case(salt + label.encode(), True,
                           {'boundary': label, 'code_len': len(code), 'version': ver, 'labels': labs},
                           labs + ['boundary', 'boundary_' + which, 'boundary_' + label])
    ctx.hyp('boundary', st.tuples(st.binary(min_size=3, max_size=3),
                                  st.one_of(st.none(), st.binary(min_size=4, max_size=4), st.binary(min_size=8, max_size=8)),
                                  st.sampled_from([8, 8, 33, 1, 0])), body,
            max_examples=1 if ctx.quick else 4)


# ---------------------------------------------------------------- .p8 -> .p8.png -> .p8

def check_convert(seed, case):
    from pico8.game import file as pfile
    ch = Choices(seed)
    mem, modes = cartgen.memory_from_choices(ch)
    version = 1 + ch.below(255)
    code, _ = cartgen.filler_code(ch, max_lines=10)
    code = code.replace(b'\x00', b'\x01')
    if ch.chance(100):
        if code and not code.endswith(b'\n'):
            code += b'\n'
        code = code * (1 + ch.below(30))
    g = cartgen.make_game(mem, version=version, code=code)
    code0 = b''.join(g.lua.to_lines())
    with tempfile.TemporaryDirectory(prefix='c04c_') as td:
        p1, p2, p3 = (os.path.join(td, n) for n in ('a.p8', 'b.p8.png', 'c.p8'))
        try:
            pfile.to_file(g, p1)
            g1 = pfile.from_file(p1)
            pfile.to_file(g1, p2)
            g2 = pfile.from_file(p2)
            pfile.to_file(g2, p3)
            g3 = pfile.from_file(p3)
        except Exception as e:
            raise Violation('.p8 -> .p8.png -> .p8 conversion raised %r' % e, case, 'convert')
    want = mem[:0x3100] + reffmt.music_mask(mem[0x3100:0x3200]) + mem[0x3200:]
    got = cartgen.flat(g3)
    if got != want:
        bad = [n for (n, lo, hi) in cartgen.REGIONS if got[lo:hi] != want[lo:hi]]
        raise Violation('regions %s changed in .p8 -> .p8.png -> .p8' % bad, case, 'convert-regions')
    code3 = b''.join(g3.lua.to_lines())
    if code3.replace(b'\r', b' ').rstrip(b'\n') != code0.replace(b'\r', b' ').rstrip(b'\n'):
        raise Violation('code changed in .p8 -> .p8.png -> .p8: %s -> %s' % (show(code0, 100), show(code3, 100)),
                        case, 'convert-code')
    return modes, code


def part_convert(ctx):
    def body(seed):
        modes, code = check_convert(seed, {'seed': bytes(seed), 'kind': 'convert'})
        ctx.stats.case(b'cv' + seed, len(code) > 0, {'convert': True, 'modes': modes, 'code': show(code, 60)},
                       ['convert'])
    ctx.hyp('convert', st.binary(min_size=120, max_size=120), body, max_examples=25 if ctx.quick else 200)


def parts(tier):
    if tier == 'quick':
        return [('small', part_small, 4), ('boundary', part_boundary, 4), ('convert', part_convert, 1)]
    return [('small', part_small, 8), ('boundary', part_boundary, 8), ('convert', part_convert, 2)]


def replay(case):
    kind = case.get('kind')
    if kind == 'small':
        mem, modes, version, code, ck, dest = gen_small(case['seed'])
        check_write(mem, version, code, dest, dict(small_case(case['seed'], version), **case))
    elif kind == 'boundary':
        mem, _ = cartgen.memory_from_seed(b'\x01' + case['salt'])
        for label, code in boundary_cases(case['salt'], case['which']):
            if label == case['label']:
                check_write(mem, case['version'], code, case['dest'], case)
    elif kind == 'convert':
        check_convert(case['seed'], case)
    elif kind == 'compress':
        _SafeCompress.compress_code(case['code'])
    else:
        check_write(case['mem'], case['version'], case['code'], case.get('dest'), case)


def vacuity(total, tier):
    msgs = []
    for lab in ('stored_raw', 'stored_compressed', 'refused', 'boundary_raw', 'boundary_compressed', 'boundary_header_edge',
                'boundary_compressed_exact_fill', 'lua_object_of_other_version', 'label_fname_none_passed',
                'dest_exists', 'dest_absent', 'cart_with_own_label', 'cart_loaded_from_png', 'cart_loaded_from_p8_labelled', 'dest_plain', 'dest_interlaced', 'dest_ancillary', 'dest_chunk_pHYs', 'convert', 'code_update60', 'code_incompressible_update60', 'code_table_rows', 'written_twice'):
        if total.classes.get(lab, 0) < 1:
            msgs.append('class %s never seen' % lab)
    return msgs
