"""C03 - .p8 text cart write/read round trip preserves the whole cart."""
import io
import os
import re
import tempfile

from hypothesis import strategies as st

from vlib.runner import Violation, show
from vlib.choices import Choices, expand
from vlib import cartgen, reffmt

PROPERTY = 'C03'
LEVEL = 'exploration'
RULE = ('carts = (0x4300 bytes of region memory from a mode mixture incl. uniform random / ramp / 0xff / '
        'sparse, label present or absent, version 0..10^6, Lua source = filler statements with strings, '
        'comments and identifiers over all 256 byte values or a LUAGEN program, LF or CRLF, with/without '
        'final newline); each is written with P8Formatter.to_file (and file.to_file / `p8tool writep8` on a '
        'subset), re-read, compared field by field, re-written and compared byte for byte, and the written '
        'bytes are also decoded by the independent reference reader. Non-trivial = >= 3 regions with >= 16 '
        'distinct byte values and code containing a byte >= 0x80 or < 0x20; distinct by the generating seed.'
        ' Written under file names containing braces, percent signs, blanks, non-ASCII and a leading dash. Part "big": a 22k-glyph single line with escapes, 24k characters of glyph comment lines (> 64 KiB of UTF-8, seven alignments), code over the 65535-character limit and over the 8192-token limit (picotool warns and writes), each under a plain and three awkward file names via file / cli / stream.'
        ' Further "big" shapes: line_counts (exactly 128/255/256/257/511/512/513/1024 code lines, with/without final newline) and header_like (lines of the form __X__ that are not section headers by the format\'s ASCII word rule, in strings, comments and as a glyph identifier alone on a line).'
        ' A sixteenth of the carts end their code in a bare CR.'
        ' A third of the file / cli writes go over an existing, different, labelled cart at the destination (and at *_fmt.p8).'
        ' Part "two_carts": `p8tool writep8 A B` with two generated carts, among them B named like the output of A (a.p8 a_fmt.p8): every output must hold its own cart.')
ASSUMPTIONS = ['the cart\'s Lua code is what Game.lua.to_lines() yields before the write',
               'sources with a `__section__`-looking line or an #include line are outside the domain (counted)',
               'music bit 7 of every 4th byte is excepted, as the property states']
LEVEL_TEXT = ('Exploration: generated whole carts over full byte ranges, round trip + rewrite identity + an '
              'independent reader of the written text, so a mistake shared by picotool\'s writer and reader '
              'still shows.')
LEVEL_NOTE = 'Trusted: vlib/reffmt.py reference .p8 reader; P8SCII table contents (checked separately by C15).'
TECHNIQUE = 'Hypothesis-generated carts; round-trip, rewrite-identity and differential (reference .p8 reader) oracles'

SECTION_RE = re.compile(rb'__\w+__')


def gen_case(seed):
    ch = Choices(seed)
    mem, modes = cartgen.memory_from_choices(ch)
    if seed[-1] % 4 == 0:
        # sfx patterns as PICO-8 leaves them when nobody edited them (speed 16, no notes)
        mem = cartgen.with_untouched_sfx(mem, seed[-2])
        modes = modes + ('untouched_sfx',)
    vkind = ch.below(4)
    version = [ch.below(64), ch.below(256), 8, ch.below(1000001)][vkind]
    has_label = ch.chance(128)
    label = expand(b'lab' + seed[:8], 8192) if has_label else None
    if has_label and ch.chance(64):
        label = bytes(8192)
    crlf = ch.chance(40)
    if ch.chance(70):
        # a LUAGEN program of the dialect (string escapes, long strings, comments, glyph identifiers, short-ifs)
        from vlib import luagen
        model, _tags = luagen.gen_program(ch, luagen.Cfg(max_depth=2, max_stmts=1 + ch.below(5), budget=40 + ch.below(60)))
        toks, _stmts = luagen.render(model, ch)
        lay = luagen.layout(toks, ch, ch.pick(['free', 'lines', 'minimal']), crlf=crlf)
        code = lay.src if luagen.verify(lay) is not None else b'x=1\n'
        cstats = {'lines': code.count(b'\n'), 'has_special_bytes': any(b >= 0x80 or b < 0x20 and b not in (10, 13, 9)
                                                                       for b in code),
                  'final_newline': code.endswith(b'\n'), 'luagen': True}
    else:
        code, cstats = cartgen.filler_code(ch, crlf=crlf)
    if seed[-7] % 16 == 3 and code:
        # the very last line end is a bare CR (old Mac style): the lexer takes it as a line end, the .p8 format does not
        code = (code[:-1] if code.endswith(b'\n') else code).rstrip(b'\r') + b'\r'
        cstats = dict(cstats, final_newline=False, final_cr=True)
    return {'mem': mem, 'modes': modes, 'version': version, 'label': label, 'code': code,
            'cstats': cstats, 'crlf': crlf}


def excluded(code):
    for ln in code.split(b'\n'):
        if SECTION_RE.match(ln):
            return 'section_like_line'
        if ln.lstrip().startswith(b'#include'):
            return 'include_line'
    return None


def loaded_and_edited(c, edit_seed, case):
    """The cart as a user of the library gets it: loaded from a (reference-written) .p8 file, then edited through
    the library (raw memory writes, map cells in the rows shared with the sprite sheet, sprites, notes).  Returns
    (game, cart dict describing its contents after the edits)."""
    from pico8.game.formatter.p8 import P8Formatter
    data = reffmt.write_p8(c['version'], c['code'], c['mem'], c['label'])
    try:
        g = P8Formatter.from_file(io.BytesIO(data))
        ch = Choices(edit_seed)
        for _ in range(1 + ch.below(5)):
            k = ch.below(5)
            if k == 0:
                n = 1 + ch.below(40)
                g.write_cart_data(expand(b'ed' + ch.take(2), n), ch.below(0x4300 - n))
            elif k == 1:
                g.map.set_cell(ch.below(128), 32 + ch.below(32), ch.byte())
            elif k == 2:
                g.map.set_cell(ch.below(128), ch.below(32), ch.byte())
            elif k == 3:
                g.gfx.set_sprite(ch.byte(), [[ch.below(16) for _x in range(1 + ch.below(8))] for _y in range(1 + ch.below(8))])
            else:
                g.sfx.set_note(ch.below(64), ch.below(32), pitch=ch.below(64), waveform=ch.below(16), volume=ch.below(8),
                               effect=ch.below(8))
    except Exception as e:
        raise Violation('loading a reference-written .p8 and editing it through the library raised %r' % e, case, 'edit')
    c2 = dict(c)
    c2['mem'] = cartgen.flat(g)
    c2['code'] = b''.join(g.lua.to_lines())
    return g, c2


def _other_cart_file():
    """A complete, different, labelled cart as it may already sit at the destination."""
    return reffmt.write_p8(27, b'-- the cart that was here before\nold=1\n', bytes(range(256)) * 0x43,
                           label=bytes((i * 7 + 3) % 16 for i in range(128 * 128)))


def check_cart(c, via, case, g=None, fname='cart', over_existing=False):
    """c: dict(mem, version, label, code); via in {'stream','file','cli'}."""
    from pico8.game.formatter.p8 import P8Formatter
    from pico8.game import file as pfile
    from pico8 import tool
    from vlib import prelude
    prelude.files()
    try:
        if g is None:
            g = cartgen.make_game(c['mem'], version=c['version'], code=c['code'], label=c['label'])
    except Exception as e:
        raise Violation('cannot build a cart from generated source %s: %r' % (show(c['code']), e), case, 'build')
    code0 = b''.join(g.lua.to_lines())
    want_code = code0 if (code0.endswith(b'\n') or not code0) else code0 + b'\n'
    if code0 == b'':
        want_code = b'\n'   # the format always has one (empty) code line; documented "newline supplied"
    td = None
    try:
        if via == 'stream':
            buf = io.BytesIO()
            try:
                P8Formatter.to_file(g, buf)
            except Exception as e:
                raise Violation('P8Formatter.to_file raised %r' % e, case, 'write')
            data = buf.getvalue()
            try:
                g2 = P8Formatter.from_file(io.BytesIO(data))
            except Exception as e:
                raise Violation('re-reading the written .p8 raised %r' % e, case, 'read')
        else:
            td = tempfile.TemporaryDirectory(prefix='c03_')
            path = os.path.join(td.name, fname + '.p8')
            if over_existing:
                # the destination (and the command line's *_fmt.p8) already hold another cart, with a label
                for p_old in (path, os.path.join(td.name, fname + '_fmt.p8')):
                    with open(p_old, 'wb') as fh:
                        fh.write(_other_cart_file())
            try:
                pfile.to_file(g, path)
            except Exception as e:
                raise Violation('file.to_file raised %r' % e, case, 'write')
            if via == 'cli':
                try:
                    rc = tool.main(['writep8', path])
                except Exception as e:
                    raise Violation('`p8tool writep8` raised %r' % e, case, 'write')
                if rc != 0:
                    raise Violation('`p8tool writep8` returned %r' % rc, case, 'write')
                path = os.path.join(td.name, fname + '_fmt.p8')
                if not os.path.exists(path):
                    raise Violation('`p8tool writep8` did not write %s_fmt.p8' % fname, case, 'write')
            data = open(path, 'rb').read()
            try:
                g2 = pfile.from_file(path)
            except Exception as e:
                raise Violation('re-reading the written .p8 raised %r' % e, case, 'read')
    finally:
        if td is not None:
            td.cleanup()

    got_code = b''.join(g2.lua.to_lines())
    if got_code != want_code:
        raise Violation('code changed in .p8 round trip: wrote %s, read back %s'
                        % (show(code0, 120), show(got_code, 120)), case, 'code')
    exp = list(zip(('gfx', 'map', 'gff', 'music', 'sfx'),
                   [c['mem'][lo:hi] for _n, lo, hi in cartgen.REGIONS]))
    got = dict(zip(('gfx', 'map', 'gff', 'music', 'sfx'), cartgen.region_datas(g2)))
    for name, want in exp:
        if name == 'music':
            want = reffmt.music_mask(want)
        if got[name] != want:
            if len(got[name]) != len(want):
                raise Violation('region %s has %d bytes after the round trip (was %d)'
                                % (name, len(got[name]), len(want)), case, 'region-size')
            i = [i for i in range(len(want)) if got[name][i] != want[i]][0]
            raise Violation('region %s byte %d: wrote 0x%02x, read back 0x%02x'
                            % (name, i, want[i], got[name][i]), case, 'region-' + name)
    if c['label'] is None:
        if g2.label is not None:
            raise Violation('cart without label came back with a label', case, 'label')
    else:
        if g2.label is None or bytes(g2.label._data) != c['label']:
            raise Violation('label image changed or was lost in the round trip', case, 'label')
    if g2.version != c['version']:
        raise Violation('version %r came back as %r' % (c['version'], g2.version), case, 'version')
    # rewrite identity
    buf2 = io.BytesIO()
    try:
        P8Formatter.to_file(g2, buf2)
    except Exception as e:
        raise Violation('re-writing the re-read cart raised %r' % e, case, 'rewrite')
    if buf2.getvalue() != data:
        a, b = data, buf2.getvalue()
        i = next((i for i in range(min(len(a), len(b))) if a[i] != b[i]), min(len(a), len(b)))
        raise Violation('re-writing the re-read cart is not byte-identical (first difference at byte %d: %s vs %s)'
                        % (i, show(a[i:i + 30]), show(b[i:i + 30])), case, 'rewrite')
    # independent reader
    try:
        r = reffmt.read_p8(data)
    except Exception as e:
        raise Violation('written .p8 is not readable by the reference reader: %r' % e, case, 'ref-read')
    if r['code'] != want_code:
        raise Violation('reference reader extracts different code from the written file: %s vs %s'
                        % (show(r['code'], 100), show(want_code, 100)), case, 'ref-code')
    for name, want in exp:
        if name == 'music':
            want = reffmt.music_mask(want)
        if r[name] != want:
            raise Violation('reference reader extracts a different %s region from the written file' % name,
                            case, 'ref-' + name)
    if r['label'] != c['label'] or r['version'] != c['version']:
        raise Violation('reference reader extracts a different label/version from the written file', case, 'ref-meta')


def one(ctx, seed, via):
    c = gen_case(seed)
    ex = excluded(c['code'])
    if ex:
        ctx.stats.exclude(ex)
        return
    edited = seed[-3] % 5 == 0
    over = via != 'stream' and seed[-6] % 3 == 0
    if edited:
        case = {'seed': bytes(seed), 'via': via, 'edited': True}
        g, c = loaded_and_edited(c, seed[-12:], case)
        if len(c['mem']) != 0x4300:
            raise Violation('regions have %d bytes in total after library edits' % len(c['mem']), case, 'edit')
        check_cart(c, via, case, g, fname=FNAMES[seed[-4] % len(FNAMES)], over_existing=over)
    else:
        check_cart(c, via, {'seed': bytes(seed), 'via': via}, fname=FNAMES[seed[-4] % len(FNAMES)], over_existing=over)
    rich = sum(1 for (_n, lo, hi) in cartgen.REGIONS if cartgen.distinct_values(c['mem'][lo:hi]) >= 16)
    nontrivial = rich >= 3 and c['cstats']['has_special_bytes']
    labs = ['via_' + via, 'label' if c['label'] is not None else 'no_label']
    if edited:
        labs.append('loaded_then_edited')
    if over:
        labs.append('over_existing_labelled_cart')
        if c['label'] is None:
            labs.append('unlabelled_over_existing_labelled_cart')
    if not c['cstats']['final_newline']:
        labs.append('no_final_newline')
    if c['crlf']:
        labs.append('crlf')
    if c['cstats'].get('final_cr'):
        labs.append('code_ends_in_bare_cr')
    if c['version'] > 255:
        labs.append('version>255')
    if c['cstats'].get('luagen'):
        labs.append('luagen_program')
    if 'untouched_sfx' in c['modes']:
        labs.append('untouched_sfx')
    ctx.stats.case(seed + via.encode(), nontrivial,
                   {'version': c['version'], 'modes': c['modes'], 'label': c['label'] is not None,
                    'code': show(c['code'], 120)}, labs)


# file names a cart may have (the name ends up in messages the writer and the tool format)
FNAMES = ('cart', 'level{2}', '{0}', '100%', 'x%s', 'a b', '[1]', "it's", 'm\u00fcll', '{', 'a}{b', '%(x)s', '-q', 'x.p8')


def big_case(seed, shape):
    """Carts at the edges of what PICO-8 takes: a very long line, > 64 KiB of UTF-8, code over the character or
    token limit (picotool warns and writes it)."""
    from checks import c15
    mem, modes = cartgen.memory_from_seed(b'\x02' + seed)
    if shape in ('lines', 'oneline'):
        code = c15.big_code(seed[:2], shape)
    elif shape == 'line_counts':
        # exactly 2^k (and neighbouring) numbers of code lines, with and without a final newline
        n = (255, 256, 257, 512, 1024, 128, 511, 513)[seed[0] % 8]
        code = b''.join(b'v%d=%d\n' % (i % 50, i) for i in range(n))
        if seed[2] % 3 == 0:
            code = code[:-1]
    elif shape == 'header_like':
        # lines that look like - but by the format's ASCII word rule are not - section headers
        lines = list(c15.HEADER_LIKE)
        k = seed[0] % len(lines)
        pick = [lines[(k + 7 * i) % len(lines)] for i in range(6)]
        code = b's=[[\n' + b'\n'.join(pick[:3]) + b'\n]]\n--[[\n' + b'\n'.join(pick[3:]) + b'\n]]\nt={\n' + \
            c15.HEADER_LIKE[seed[1] % 128] + b',\n}\n'          # (a glyph identifier alone on its line)
    elif shape == 'over_chars':
        line = b'-- ' + bytes(0x61 + b % 26 for b in expand(b'oc' + seed, 60)) + b'\n'
        code = b'x=1\n' + line * (65536 // len(line) + 1 + seed[0] % 3)
    else:
        code = b'x=0\n' + b'x=x+1 ' * (1700 + seed[0] % 8) + b'\n'
    return {'mem': mem, 'modes': modes, 'version': 8 + seed[1] % 30, 'label': None, 'code': code, 'crlf': False,
            'cstats': {}}


BIG_SHAPES = ('lines', 'oneline', 'over_chars', 'over_tokens', 'line_counts', 'header_like')


def part_big(ctx):
    """One shape per shard; every example runs the shape under a plain and three awkward file names (one with
    braces, one with a percent sign, one drawn), alternating file / cli / stream."""
    shape = BIG_SHAPES[ctx.shard % len(BIG_SHAPES)]

    def body(v):
        seed, k = v
        names = ('cart', ('level{2}', '{0}', 'a}{b', '{')[k % 4], ('100%', 'x%s', '%(x)s')[k % 3], FNAMES[5 + k % 9])
        c = big_case(seed, shape)
        for i, fname in enumerate(names):
            via = ('file', 'cli', 'file', 'stream')[(i + k) % 4]
            check_cart(c, via, {'big': shape, 'seed': bytes(seed), 'via': via, 'fname': fname}, fname=fname)
            ctx.stats.case(seed + shape.encode() + via.encode() + fname.encode(), True,
                           {'big': shape, 'code_chars': len(c['code']), 'via': via, 'file_name': fname + '.p8'},
                           ['big_' + shape, 'via_' + via] + (['awkward_file_name'] if fname != 'cart' else []))
    ctx.hyp('big', st.tuples(st.binary(min_size=4, max_size=4), st.integers(0, 35)), body,
            max_examples=(1 if shape == 'over_tokens' else 8 if shape in ('line_counts', 'header_like') else 2) if ctx.quick else 12,
            shrink=False)


def part_stream(ctx):
    ctx.hyp('stream', st.binary(min_size=160, max_size=160), lambda s: one(ctx, s, 'stream'),
            max_examples=250 if ctx.quick else 1500)


def part_file(ctx):
    ctx.hyp('file', st.tuples(st.binary(min_size=160, max_size=160), st.sampled_from(['file', 'cli'])),
            lambda v: one(ctx, v[0], v[1]), max_examples=40 if ctx.quick else 300)


def check_two_carts(seed_a, seed_b, names, case):
    """`p8tool writep8 A B` where B's file name is the name of A's output (a.p8 and a_fmt.p8: the second cart is an
    earlier output that is converted again in the same call): each cart's output must be that cart."""
    from pico8 import tool
    carts = []
    for sd in (seed_a, seed_b):
        c = gen_case(sd)
        if excluded(c['code']) or b'\r' in c['code']:
            return None
        c = dict(c, version=c['version'] % 256)
        carts.append(c)
    with tempfile.TemporaryDirectory(prefix='c03t_') as td:
        paths = [os.path.join(td, n) for n in names]
        for c, pth in zip(carts, paths):
            with open(pth, 'wb') as fh:
                fh.write(reffmt.write_p8(c['version'], c['code'], c['mem'], label=c['label']))
        cwd = os.getcwd()
        os.chdir(td)
        try:
            try:
                rc = tool.main(['writep8'] + list(names))
            except Exception as e:
                raise Violation('`p8tool writep8 %s` raised %r' % (' '.join(names), e), case, 'two-carts')
        finally:
            os.chdir(cwd)
        if rc != 0:
            raise Violation('`p8tool writep8 %s` returned %r' % (' '.join(names), rc), case, 'two-carts')
        for c, n in zip(carts, names):
            outp = os.path.join(td, n[:-3] + '_fmt.p8')
            if not os.path.exists(outp):
                raise Violation('`p8tool writep8 %s` wrote no %s' % (' '.join(names), os.path.basename(outp)), case, 'two-carts')
            r = reffmt.read_written(open(outp, 'rb').read(), case, what=os.path.basename(outp))
            want_mem = c['mem'][:0x3100] + reffmt.music_mask(c['mem'][0x3100:0x3200]) + c['mem'][0x3200:]
            got_mem = r['gfx'] + r['map'] + r['gff'] + r['music'] + r['sfx']
            if r['version'] != c['version'] or got_mem != want_mem or r['label'] != c['label']:
                what = 'version' if r['version'] != c['version'] else 'label' if got_mem == want_mem else 'data regions'
                raise Violation('`p8tool writep8 %s`: %s does not hold the cart given as %s (%s differ; it holds version %r, '
                                'the cart has version %r)' % (' '.join(names), os.path.basename(outp), n, what, r['version'],
                                                              c['version']), case, 'two-carts')
    return carts


TWO_CART_NAMES = (('a.p8', 'a_fmt.p8'), ('a_fmt.p8', 'a.p8'), ('x.p8', 'y.p8'), ('cart.p8', 'cart_fmt.p8'))


def part_two_carts(ctx):
    def body(v):
        sa, sb = v
        for k, names in enumerate(TWO_CART_NAMES):          # (every naming for every pair of carts)
            case = {'two': True, 'seed_a': bytes(sa), 'seed_b': bytes(sb), 'names': list(names)}
            carts = check_two_carts(sa, sb, names, case)
            if carts is None:
                ctx.stats.exclude('section_like_or_include_line')
                return
            collide = names[1] == names[0][:-3] + '_fmt.p8'
            ctx.stats.case(bytes(sa) + bytes(sb) + bytes((k,)), collide, {'names': list(names)} if k == 0 else None,
                           ['two_carts_in_one_call'] + (['second_cart_is_named_like_first_output'] if collide else []))
    ctx.hyp('two_carts', st.tuples(st.binary(min_size=300, max_size=300), st.binary(min_size=300, max_size=300)),
            body, max_examples=4 if ctx.quick else 30)


def parts(tier):
    if tier == 'quick':
        return [('stream', part_stream, 3), ('file', part_file, 1), ('big', part_big, 6), ('two_carts', part_two_carts, 1)]
    return [('stream', part_stream, 12), ('file', part_file, 2), ('big', part_big, 12), ('two_carts', part_two_carts, 2)]


def replay(case):
    if case.get('two'):
        check_two_carts(case['seed_a'], case['seed_b'], tuple(case['names']), case)
        return
    if 'big' in case:
        check_cart(big_case(case['seed'], case['big']), case.get('via', 'file'), case, fname=case.get('fname', 'cart'))
    elif 'seed' in case:
        c = gen_case(case['seed'])
        if excluded(c['code']):
            return
        fname = FNAMES[case['seed'][-4] % len(FNAMES)]
        over = case.get('via', 'stream') != 'stream' and case['seed'][-6] % 3 == 0
        if case.get('edited'):
            g, c = loaded_and_edited(c, case['seed'][-12:], case)
            check_cart(c, case.get('via', 'stream'), case, g, fname=fname, over_existing=over)
        else:
            check_cart(c, case.get('via', 'stream'), case, fname=fname, over_existing=over)
    else:
        check_cart(case['cart'], case.get('via', 'stream'), case)


def vacuity(total, tier):
    msgs = []
    for lab in ('label', 'no_label', 'no_final_newline', 'via_cli', 'via_file', 'loaded_then_edited', 'untouched_sfx', 'big_oneline', 'big_lines',
                'big_over_chars', 'big_over_tokens', 'big_line_counts', 'big_header_like', 'awkward_file_name',
                'code_ends_in_bare_cr', 'unlabelled_over_existing_labelled_cart', 'second_cart_is_named_like_first_output'):
        if total.classes.get(lab, 0) < 3:
            msgs.append('class %s seen %d times' % (lab, total.classes.get(lab, 0)))
    return msgs
