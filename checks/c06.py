"""C06 - unchanged code stays unchanged: the default writer echoes the source losslessly."""
from hypothesis import strategies as st

from vlib.runner import Violation, show
from vlib.choices import Choices
from vlib import reflex, lexatoms, luagen

PROPERTY = 'C06'
LEVEL = 'exploration'
RULE = ('sources: (a) LUAGEN programs of the dialect in random layouts (comments, blank lines, LF/CRLF, with and '
        'without final newline); (b) statements around generated string literals built from pieces - raw bytes over '
        'all 256 values, every escape form (\\n.., \\ddd with 1-3 digits, \\xhh, backslash-newline with LF and CRLF, '
        'P8SCII control escapes, \\z) each followed by a digit / hex digit / quote / backslash / letter, both quote '
        'kinds, long brackets of levels 0-3 containing ]] and ]=] and a leading line break; (c) token soups. Each is '
        'loaded as one chunk, per line and in random line-aligned chunks and written back with the default writer '
        '(Lua.to_lines(); for unparseable soups the same LuaEchoWriter over the lexer\'s tokens). Oracle: REFLEX(out) '
        'and REFLEX(src) have the same token sequence including blanks, line ends and comments; every non-string '
        'token has identical bytes; every string literal denotes the same byte string. Non-trivial = the source '
        'has a string literal with an escape or a byte >= 0x80, or a multi-line token; distinct by source.'
        ' A quarter of the parseable sources (no CR, no header-like or include-like line) also go through `p8tool writep8` on a .p8 file written by the reference writer; the output cart is read by the reference reader (own P8SCII table) and judged the same way.'
        ' After the chunkings, the default writer is run once more on a Lua object on which another writer (PureLuaWriter, LuaMinifyTokenWriter, LuaFormatterWriter, LuaASTEchoWriter) has just produced output: it must still echo the source. Part "starts" puts every representative atom (incl. glyph names equal to Unicode byte-order marks) first and last in a source.')
ASSUMPTIONS = ['lexical rules are represented by vlib/reflex.py; sources it rejects are out of domain (counted)',
               'how levelled long comments --[=[ ]=] and spaced labels tokenise is not asserted here (known findings of C07); the echo clause still applies to them']
LEVEL_TEXT = ('Exploration: generated programs and adversarial string literals echoed through the default writer and '
              'judged by an independent lexer (byte identity outside strings, equal denotation inside).')
LEVEL_NOTE = 'Trusted: vlib/reflex.py.'
TECHNIQUE = 'Hypothesis-generated sources; round-trip (echo) oracle judged by a reference lexer'


def chunkings(src, ch=None):
    yield 'single', [src]
    lines = []
    i = 0
    while i < len(src):
        j = src.find(b'\n', i)
        if j < 0:
            lines.append(src[i:])
            break
        lines.append(src[i:j + 1])
        i = j + 1
    if len(lines) > 1:
        yield 'per-line', lines
        if ch is not None and len(lines) > 2:
            out = []
            cur = b''
            for ln in lines:
                cur += ln
                if ch.chance(128):
                    out.append(cur)
                    cur = b''
            if cur:
                out.append(cur)
            yield 'random-chunks', out


def echo(chunks):
    """Returns (output bytes, path) using the library's default writer."""
    from pico8.lua import lua as plua
    from pico8.lua import lexer as plexer
    from pico8.lua import parser as pparser
    from vlib import prelude
    prelude.lua()
    try:
        l = plua.Lua.from_lines(list(chunks), version=8)
    except Exception:
        # not a parseable program (token soup): the echo writer only needs the token list.  (Whether valid
        # programs parse is C08's business; a lexer failure below is reported.)
        l = None
    if l is not None:
        return b''.join(l.to_lines()), 'Lua.from_lines'
    else:
        lx = plexer.Lexer(version=8)
        lx.process_lines(list(chunks))
        w = plua.LuaEchoWriter(tokens=lx.tokens, root=None)
        return b''.join(w.to_lines()), 'LuaEchoWriter'


def compare(src, out, case, how):
    ref_in = reflex.lex(src)
    try:
        ref_out = reflex.lex(out)
    except reflex.Malformed as e:
        raise Violation('echoed source (%s) no longer lexes: %s -- in %s -- out %s'
                        % (how, e, show(src, 120), show(out, 120)), case, 'relex')
    n = min(len(ref_in), len(ref_out))
    for k in range(n):
        a, b = ref_in[k], ref_out[k]
        if a.kind != b.kind:
            raise Violation('echo (%s) changed token %d from %s %s to %s %s -- source %s'
                            % (how, k, a.kind, show(a.text, 40), b.kind, show(b.text, 40), show(src, 120)),
                            case, 'kind')
        if a.kind == 'string':
            if a.text[:1] == b'[' and a.text != b.text:
                # a long-bracket literal is not re-spelled by any writer: it comes back byte for byte (its line ends too)
                raise Violation('echo (%s) changed the bytes of the long string %s into %s -- source %s'
                                % (how, show(a.text, 50), show(b.text, 50), show(src, 120)), case, 'bytes-long-string')
            if a.value != b.value:
                raise Violation('echo (%s) changed string literal %s (value %s) into %s (value %s)'
                                % (how, show(a.text, 50), show(a.value, 40), show(b.text, 50), show(b.value, 40)),
                                case, 'string-denotation')
        elif a.text != b.text:
            raise Violation('echo (%s) changed bytes outside strings: token %d %s -> %s -- source %s'
                            % (how, k, show(a.text, 40), show(b.text, 40), show(src, 120)), case, 'bytes')
    if len(ref_in) != len(ref_out):
        raise Violation('echo (%s) %s %d token(s): source %s -- output %s'
                        % (how, 'dropped' if len(ref_out) < len(ref_in) else 'added',
                           abs(len(ref_in) - len(ref_out)), show(src, 120), show(out, 120)), case, 'count')


def check_source(src, case=None, ch=None, avoid=(), stats=None):
    from checks import c07
    case = case or {'text': bytes(src)}
    try:
        ref = reflex.lex(src)
    except reflex.Malformed:
        if stats is not None:
            stats.exclude('not_lexable_by_reference')
        return None
    # (how levelled long comments and spaced labels tokenise is C07's business - known findings there; here only the
    # echo clause below is applied to them)
    why = c07.out_of_domain(src, ref, set(avoid) | set(c07.KNOWN_TAGS))
    if why == 'long_comment_level':
        # How such text tokenises is not asserted (C07), but the echo clause does not depend on it: whatever the
        # tokens are, unchanged code must come back byte for byte outside string literals.  If the comment body
        # holds no quote or backslash, no reading of it contains a string literal that could be re-spelled.
        body = b''.join(t.text[4 + t.value:len(t.text) - 2 - t.value] for t in ref if t.kind == 'comment' and t.value)
        # ... and the same must hold for everything else in the text: picotool (which does not know levels) may read
        # the rest of the opening line as comment text, so that a quoted string elsewhere starts at a different place
        # under its reading.  With no quote and no backslash anywhere, no reading has a literal to re-spell.
        if not any(c in src for c in b'"\'\\') and b'[[' not in body and b'[=' not in body and b']]' not in body:
            for how, chunks in chunkings(src, ch):
                try:
                    out, _path = echo(chunks)
                except Exception:
                    break           # unterminated under picotool's reading etc.: no echo to judge
                if out != src and reflex.try_lex(out) is not None and \
                        [t.key() for t in reflex.lex(out) if t.kind != 'string'] != \
                        [t.key() for t in ref if t.kind != 'string']:
                    raise Violation('echo (%s) changed bytes of a levelled long comment: %s -> %s'
                                    % (how, show(src, 120), show(out, 120)), case, 'bytes-levelled-comment')
            if stats is not None:
                stats.count('levelled_comment_echo_checked')
        if stats is not None:
            stats.exclude(why)
        return None
    if why:
        if stats is not None:
            stats.exclude(why)
        return None
    for how, chunks in chunkings(src, ch):
        try:
            out, path = echo(chunks)
        except Exception as e:
            raise Violation('loading/echoing (%s chunking) raised %r -- %s' % (how, e, show(src, 120)), case, 'raises')
        compare(src, out, case, how)
    echo_after_other_writer(src, case, ch)
    import zlib
    if path == 'Lua.from_lines' and zlib.crc32(src) % 4 == 0 and file_route_applicable(src):
        file_route(src, case)
        if stats is not None:
            stats.count('via_writep8_file')
            if any(b < 0x80 and (0x10 <= b < 0x20 or b == 0x7f) for b in src) and \
                    any(ln and max(ln) < 0x80 and any(0x10 <= b < 0x20 or b == 0x7f for b in ln) for ln in src.split(b'\n')):
                stats.count('via_writep8_file_low_glyph_line')
    return ref


def file_route_applicable(src):
    """The .p8 text format cannot hold every source (C03): no bare CR handling asserted here, no line that reads as a
    section header or an include line."""
    import re
    if b'\r' in src:
        return False
    for ln in src.split(b'\n'):
        if re.match(br'__\w+__$', ln) or re.match(br'\s*#include', ln):
            return False
    return True


def file_route(src, case):
    """`p8tool writep8 cart.p8`: the code section of cart_fmt.p8, read by the reference .p8 reader (own P8SCII table),
    must be the source (plus the final line end the format supplies)."""
    import os
    import tempfile
    from pico8 import tool
    from vlib import reffmt
    with tempfile.TemporaryDirectory(prefix='c06_') as td:
        path = os.path.join(td, 'cart.p8')
        with open(path, 'wb') as fh:
            fh.write(reffmt.write_p8(8, src, bytes(0x4300)))
        try:
            rc = tool.main(['-q', 'writep8', path])
        except Exception as e:
            raise Violation('`p8tool writep8` raised %r -- %s' % (e, show(src, 120)), case, 'writep8-raises')
        outp = os.path.join(td, 'cart_fmt.p8')
        if rc != 0 or not os.path.exists(outp):
            raise Violation('`p8tool writep8` returned %r / wrote no cart_fmt.p8 -- %s' % (rc, show(src, 120)), case, 'writep8')
        raw = open(outp, 'rb').read()
    try:
        out = reffmt.read_p8(raw)['code']
    except reffmt.FormatError as e:
        raise Violation('the .p8 written by `p8tool writep8` is not readable by the reference reader: %s -- source %s'
                        % (e, show(src, 120)), case, 'writep8-unreadable')
    # (the .p8 format ends every code line with a line end, and an empty program is stored as one empty line)
    want = src if src.endswith(b'\n') else src + b'\n'
    compare(want, out, case, '`p8tool writep8` (.p8 -> .p8)')


OTHER_WRITERS = (('PureLuaWriter', {}), ('LuaMinifyTokenWriter', {}), ('LuaFormatterWriter', {'indentwidth': 2}),
                 ('LuaASTEchoWriter', {}))


def echo_after_other_writer(src, case, ch=None):
    """A cart object whose code was listed/minified/formatted (to a string) and is then written with the default
    writer: "every cart write with the default writer" still has to reproduce the source."""
    from pico8.lua import lua as plua
    try:
        l = plua.Lua.from_lines([src], version=8)
    except Exception:
        return
    which = OTHER_WRITERS if ch is None else [OTHER_WRITERS[(len(src) + src[:1][0] if src else 0) % 4]]
    for name, args in which:
        try:
            b''.join(l.to_lines(writer_cls=getattr(plua, name), writer_args=dict(args)))
        except Exception:
            pass          # (whether that writer copes with the program is not this property's business)
        try:
            out = b''.join(l.to_lines())
        except Exception as e:
            raise Violation('default writer raised %r after %s ran on the same Lua object -- %s' % (e, name, show(src, 120)),
                            case, 'raises')
        compare(src, out, case, 'default writer after %s ran on the same object' % name)


def nontrivial(ref):
    for t in ref:
        if t.kind == 'string' and (b'\\' in t.text or any(c >= 0x80 for c in t.text)):
            return True
        if t.kind in ('string', 'comment') and b'\n' in t.text:
            return True
    return False


def labels(src, ref):
    labs = []
    if any(t.kind == 'string' and b'\\' in t.text and not t.quote.startswith(b'[') for t in ref):
        labs.append('string_escape')
    if any(t.kind == 'string' and t.quote.startswith(b'[') for t in ref):
        labs.append('long_string')
    if any(t.kind == 'string' and any(c >= 0x80 or c < 0x20 for c in t.text) for t in ref):
        labs.append('string_raw_special_byte')
    if b'\r\n' in src:
        labs.append('crlf')
    if not src.endswith(b'\n'):
        labs.append('no_final_newline')
    if any(t.kind == 'comment' for t in ref):
        labs.append('comment')
    return labs


def part_programs(ctx):
    def body(seed):
        ch = Choices(seed)
        cfg = luagen.Cfg(max_depth=2 + ch.below(2), max_stmts=2 + ch.below(5), budget=50 + ch.below(90))
        model, tags = luagen.gen_program(ch, cfg)
        toks, stmts = luagen.render(model, ch)
        lay = luagen.layout(toks, ch, ch.pick(['free', 'free', 'lines', 'minimal']))
        ref = check_source(lay.src, {'text': lay.src}, ch, ctx.open_findings, ctx.stats)
        if ref is not None:
            labs = labels(lay.src, ref) + ['program']
            ctx.stats.case(lay.src, nontrivial(ref), {'text': show(lay.src, 140), 'labels': labs}, labs)
    ctx.hyp('programs', st.binary(min_size=600, max_size=600), body, max_examples=500 if ctx.quick else 8000)


def part_strings(ctx):
    def body(seed):
        ch = Choices(seed)
        src = lexatoms.string_soup(ch, allow_z='esc_z' not in ctx.open_findings)
        ref = check_source(src, {'text': src}, ch, ctx.open_findings, ctx.stats)
        if ref is not None:
            labs = labels(src, ref) + ['string_soup']
            ctx.stats.case(src, nontrivial(ref), {'text': show(src, 140), 'labels': labs}, labs)
    ctx.hyp('strings', st.binary(min_size=160, max_size=160), body, max_examples=2500 if ctx.quick else 30000)


def part_soup(ctx):
    def body(seed):
        ch = Choices(seed)
        src, _ = lexatoms.soup(ch)
        ref = check_source(src, {'text': src}, ch, ctx.open_findings, ctx.stats)
        if ref is not None:
            labs = labels(src, ref) + ['token_soup']
            ctx.stats.case(src, nontrivial(ref), {'text': show(src, 140), 'labels': labs}, labs)
    ctx.hyp('soup', st.binary(min_size=120, max_size=120), body, max_examples=1500 if ctx.quick else 20000)


def part_chars(ctx):
    def body(seed):
        ch = Choices(seed)
        src = lexatoms.char_soup(ch)
        ref = check_source(src, {'text': src}, ch, ctx.open_findings, ctx.stats)
        if ref is not None:
            labs = labels(src, ref) + ['char_soup']
            ctx.stats.case(src, nontrivial(ref), {'text': show(src, 140), 'labels': labs}, labs)
    ctx.hyp('chars', st.binary(min_size=90, max_size=90), body, max_examples=2500 if ctx.quick else 30000)


def part_starts(ctx):
    """Every representative atom as the very first (and as the very last) thing of a source."""
    conts = (b'', b' = 5\n', b'\nx=1\n', b'(1)\n', b' ', b'\r\ny=2')
    n = 0
    for k, (atom, cls) in enumerate(lexatoms.representatives()):
        if k % ctx.nshards != ctx.shard:
            continue
        for c in conts:
            for src in (atom + c, b'x=1\n' + atom + c):
                ref = check_source(src, {'text': src}, Choices(atom + c), ctx.open_findings, ctx.stats)
                if ref is not None:
                    n += 1
                    ctx.stats.case(src, True, {'text': show(src, 60)} if n % 97 == 1 else None, ['source_start_or_end_atom'])


def part_fuzz(ctx):
    """Coverage-guided bytes -> lexable filter -> the echo oracle (thorough tier; needs atheris)."""
    corpus = [b'x="a\\0001"', b'y=[[\nl]]', b"z='\\x41\\z  b'", b'-- c\r\nq=1', b'f"s"', b'a="\\\nb"', b'x=1']
    ctx.fuzz('c06', runs=80000, max_len=96, corpus=corpus)


def parts(tier):
    if tier == 'quick':
        return [('programs', part_programs, 4), ('strings', part_strings, 5), ('soup', part_soup, 3), ('chars', part_chars, 3),
                ('starts', part_starts, 1)]
    return [('programs', part_programs, 4), ('strings', part_strings, 4), ('soup', part_soup, 3), ('chars', part_chars, 2),
            ('starts', part_starts, 1), ('fuzz', part_fuzz, 2)]


def replay(case):
    check_source(case['text'], case)


def vacuity(total, tier):
    msgs = []
    for lab in ('string_escape', 'long_string', 'string_raw_special_byte', 'crlf', 'no_final_newline', 'comment',
                'program', 'string_soup', 'token_soup', 'source_start_or_end_atom', 'via_writep8_file',
                'via_writep8_file_low_glyph_line'):
        if total.classes.get(lab, 0) < 20:
            msgs.append('class %s seen %d times' % (lab, total.classes.get(lab, 0)))
    return msgs
