"""C14 - build embeds each require()d package once and leaves all code intact."""
import os
import tempfile

from hypothesis import strategies as st

from vlib.runner import Violation, show
from vlib.choices import Choices
from vlib import reflex, luagen, reffmt

PROPERTY = 'C14'
LEVEL = 'exploration'
RULE = ('cases = a main .lua file plus a graph of 1-6 packages (chains, diamonds/shared packages, cycles, packages in '
        'sub-directories, custom relative / absolute load paths via --lua-path and PICO8_LUA_PATH); require() sites as '
        'statements, local / assignment right-hand sides, inside function bodies and (lower weight) inside another '
        'call\'s arguments or as a call prefix; option {use_game_loop=true} per package; package bodies are LUAGEN '
        'programs with top-level _init/_update/_update60/_draw function definitions at the start, middle and end, '
        'look-alike functions (_drawx, t._draw) that must stay, trailing return, with/without final newline and '
        'trailing comment, in free / line / minimal layouts. Oracle: `p8tool build OUT.p8 --lua main.lua` returns 0; '
        'OUT\'s code (read with the reference .p8 reader) parses with picotool to its last token; its token sequence '
        '(reference lexer) is: package-table preamble, then for each distinct reachable required name exactly one '
        'package._c["name"]=function() <package tokens minus the stripped game-loop definitions\' tokens> end (any '
        'order), then a `function require(` ... `end` loader, then the main file\'s tokens unchanged. Error cases '
        '(missing file, 0 or 3 arguments, non-string name, bad option table) must fail and leave OUT untouched. '
        'Non-trivial = >= 2 packages with one shared or nested and a game-loop function not in last position; '
        'distinct by seed.'
        " A quarter of the default-load-path graphs reach one file under two names (x and x.lua), each with its own use_game_loop choice (two packages, per the README); some graphs use a relative load path containing '..' (?.lua;../libs/?.lua)."
        ' A third of the graphs are first built while the file of one required package is missing (the build must be rejected and write nothing), then the file is put back and the build under test runs in the same process.'
        ' Some graphs have a package named like a directory that holds other packages (x.lua next to x/).'
        ' A third of the stripped packages call require() on a non-existing file inside a game-loop function (stripped with the function); error cases include require{"x"}.'
        ' Requires without options are also spelled require "x" / require [[x]]; package names include a backslash and a quote (a\\b.lua, say"hi".lua); look-alike functions include members of tables named like game-loop functions (function _draw.helper(), function _init:m()), which stay.')
ASSUMPTIONS = ['require "name" / require [[name]] (Lua\'s call-with-a-string-literal spelling) is the same call as require("name") and is generated for requires without options; require{...} must fail',
               'a package is required with the same option everywhere (picotool documents first-encounter-wins otherwise)',
               'only plain `function _draw()`-style definitions count as game-loop definitions; `function _draw.x()`, '
               '`local function _draw()` and `_draw = function` forms are not generated',
               'lexical rules are represented by vlib/reflex.py']
LEVEL_TEXT = ('Exploration: generated package graphs and bodies built end to end through the CLI; the built code is '
              'compared token for token with a loader model derived from the generated files.')
LEVEL_NOTE = 'Trusted: vlib/luagen.py, vlib/reflex.py, vlib/reffmt.py (.p8 reader).'
TECHNIQUE = 'Hypothesis-generated package graphs; model-based token-sequence oracle on the built cart'

GAME_LOOP = [b'_init', b'_update', b'_update60', b'_draw']
LOOKALIKE = [([b'_drawx'], None), ([b't', b'_draw'], None), ([b'my_update'], None), ([b'obj', b'_init'], b'_update'),
             # members of a table that happens to be called like a game-loop function: `function _draw.helper()` defines
             # the field `helper`, `function _init:m()` the method `m` - not _draw / _init
             ([b'_draw', b'helper'], None), ([b'_init'], b'm'), ([b'_update60', b'x', b'y'], None), ([b'_update', b'_update'], None)]
PREAMBLE = b'package={loaded={},_c={}}'


def _str_lit(name, ch):
    q = ch.pick([b'"', b'"', b"'"])
    return q + name.replace(b'\\', b'\\\\').replace(q, b'\\' + q) + q


def _str_exp(name, ch):
    return ('exp', [('string', _str_lit(name, ch))])


def require_chain(name, ch, use_game_loop):
    if not use_game_loop and ch.chance(40):
        # Lua's call-with-one-string-literal syntax: require "name" / require [[name]] is require("name")
        lit = b'[[' + name + b']]' if (ch.chance(80) and b']' not in name and b'\\' not in name) else _str_lit(name, ch)
        return ('chain', ('name', b'require'), [('call', ('stringarg', lit))])
    args = [_str_exp(name, ch)]
    if use_game_loop:
        args.append(('exp', [('table', [('named', b'use_game_loop', ('exp', [('true',)]))])]))
    return ('chain', ('name', b'require'), [('call', ('args', args))])


def require_stmt(name, ch, use_game_loop, k):
    """A statement containing a require() call; returns (stmt, site kind)."""
    chain = require_chain(name, ch, use_game_loop)
    site = ch.weighted([(90, 'stmt'), (60, 'local'), (40, 'assign'), (40, 'in_function'), (12, 'in_args'),
                        (10, 'prefix'), (12, 'in_table'), (10, 'in_if')])
    if site == 'stmt':
        return ('call', chain), site
    if site == 'local':
        return ('local', [b'mod%d' % k], [('exp', [chain])]), site
    if site == 'assign':
        return ('assign', [('chain', ('name', b'lib%d' % k), [])], b'=', [('exp', [chain])]), site
    if site == 'in_function':
        return ('function', [b'load%d' % k], None, ([], False, [('return', [('exp', [chain])])])), site
    if site == 'in_args':
        return ('call', ('chain', ('name', b'print'), [('call', ('args', [('exp', [chain])]))])), site
    if site == 'in_table':
        return ('assign', [('chain', ('name', b'mods%d' % k), [])], b'=',
                [('exp', [('table', [('named', b'm', ('exp', [chain]))])])]), site
    if site == 'in_if':
        return ('if', [(('exp', [('chain', ('name', b'debug'), [])]), [('call', chain)])], None), site
    c = ('chain', ('name', b'require'), chain[2] + [('attr', b'init'), ('call', ('args', []))])
    return ('call', c), site


HARNESS_REQUIRE = ('call', ('chain', ('name', b'require'),
                            [('call', ('args', [('exp', [('string', b'"zz_only_for_the_test_cart"')])]))]))


def gen_body(ch, requires, is_package, avoid, harness=False):
    """Model block of one file: LUAGEN statements + require statements (+ game-loop functions for packages)."""
    cfg = luagen.Cfg(max_depth=2, max_stmts=1 + ch.below(4), budget=20 + ch.below(50), avoid=avoid)
    body, tags = luagen.gen_program(ch, cfg)
    ret = None
    if body and body[-1][0] in ('return', 'break'):
        ret = body.pop()
        if ret[0] == 'break':
            ret = None
    # a statement that must be on a later line than what precedes is handled by the layout; here only order
    sites = []
    for k, (name, ugl) in enumerate(requires):
        stmt, site = require_stmt(name, ch, ugl, k)
        sites.append(site)
        body.insert(ch.below(len(body) + 1), stmt)
    loops = []
    if is_package:
        for _ in range(ch.weighted([(60, 0), (100, 1), (70, 2), (30, 3)])):
            nm = ch.pick(GAME_LOOP)
            g = luagen._Gen(ch, luagen.Cfg(max_depth=1, max_stmts=2, budget=12, avoid=avoid))
            fn = ('function', [nm], None, g.body(1))
            if harness:
                # the library's own test cart code: a require() that only its game loop needs (the file does not exist).
                # The function is stripped when the library is embedded, and its require() with it.
                fn[3][2].insert(0, HARNESS_REQUIRE)
            pos = ch.weighted([(60, 'start'), (80, 'middle'), (60, 'end')])
            idx = {'start': 0, 'middle': ch.below(len(body) + 1), 'end': len(body)}[pos]
            body.insert(idx, fn)
            loops.append(pos)
        if ch.chance(80):
            path, meth = ch.pick(LOOKALIKE)
            g = luagen._Gen(ch, luagen.Cfg(max_depth=1, max_stmts=2, budget=10, avoid=avoid))
            body.insert(ch.below(len(body) + 1), ('function', list(path), meth, g.body(1)))
            loops.append('lookalike')
        if ret is None and ch.chance(120):
            ret = ('return', [('exp', [('chain', ('name', b'M'), [])])])
    if ret is not None:
        body.append(ret)
    return body, sites, loops


class File:
    def __init__(self):
        self.path = None
        self.model = None
        self.lay = None
        self.stmts = None
        self.tokens = None      # expected significant tokens when embedded / as main
        self.sites = []
        self.loops = []


def expected_tokens(f, strip):
    """(kind, text-or-value) of the file's tokens, minus top-level game-loop function definitions if strip."""
    kept = f.lay.kept
    drop = set()
    starts = set()
    strip_not_last = False
    if strip:
        top = [s for s in f.stmts if s[4] == 0]
        for i, (sid, s, a, b, depth, parent) in enumerate(top):
            if s[0] == 'function' and len(s[1]) == 1 and s[2] is None and s[1][0] in GAME_LOOP:
                drop.update(range(a, b + 1))
                starts.add(a)
                if i != len(top) - 1:
                    strip_not_last = True
    out = []
    for k, t in enumerate(kept):
        if k not in drop:
            out.append(t)
        elif k in starts:
            out.append(EMPTY_STATEMENT)     # an empty statement `;` may stand where a definition was taken out
    if any(b + 1 < len(kept) and (b + 1) not in drop and kept[b + 1].text == b'(' and a > 0
           for (sid, st_, a, b, depth, parent) in (top if strip else []) if a in starts):
        PAREN_AFTER_STRIPPED[0] += 1
    return out, bool(drop), strip_not_last


EMPTY_STATEMENT = None
PAREN_AFTER_STRIPPED = [0]


def match_body(outk, start, exp_toks):
    """Compare built tokens from `start` with the expected ones; -> (tokens consumed, None) or (None, (k, exp, got)).
    (An empty statement is optional at each marker: both readings are tried.)"""
    keys = [None if t is EMPTY_STATEMENT else tok_key(t.kind, t.text) for t in exp_toks]
    best = [(-1, None, None)]

    def go(k, pos):
        while k < len(keys):
            if keys[k] is None:
                if pos < len(outk) and outk[pos] == ('symbol', b';'):
                    r = go(k + 1, pos + 1)
                    if r is not None:
                        return r
                k += 1
                continue
            got = outk[pos] if pos < len(outk) else None
            if got != keys[k]:
                if k > best[0][0]:
                    best[0] = (k, keys[k], got)
                return None
            k += 1
            pos += 1
        return pos
    end = go(0, start)
    if end is None:
        return None, best[0]
    return end - start, None


def tok_key(kind, text):
    if kind == 'string':
        return ('string', reflex.lex(text)[0].value)
    if kind == 'number':
        return ('number', reflex.lex(text)[0].value)
    return (kind, text)


def build_case(seed, avoid=()):
    """Returns dict describing the file set (models + layouts) deterministically from seed."""
    ch = Choices(seed)
    npk = ch.weighted([(20, 0), (70, 1), (80, 2), (70, 3), (40, 4), (20, 6)])
    names = []
    pool = [b'util', b'lib/vec', b'a', b'b2', b'sub/deep/x', b'math-lib', b'ui.widgets', b'sub/y', b'core', b'z_9',
            b'a\\b', b'say"hi"']      # (a backslash / a quote in the name: legal file names, escaped in the literal)
    for i in range(npk):
        nm = pool[(ch.below(len(pool)) + i) % len(pool)]
        while nm in names:
            nm = nm + b'x'
        names.append(nm)
    if len(bytes(seed)) >= 6 and bytes(seed)[-6] % 4 == 3:
        # a package whose name is also the name of a directory holding other packages (math.lua next to math/)
        for nm in list(names):
            if b'/' in nm and nm.split(b'/')[0] not in names and len(names) < 7:
                names.append(nm.split(b'/')[0])
                break
    load = ch.weighted([(150, 'default'), (40, 'rel_cli'), (30, 'abs_cli'), (30, 'abs_env')])
    if load in ('abs_cli', 'abs_env') and len(seed) >= 1 and bytes(seed)[-1] % 4 == 2:
        load = 'rel_dotdot'           # packages in ../libs, found through a relative pattern with a `..`
    # edges: main requires a non-empty subset; packages require later (or, for cycles, earlier) packages
    ugl = {nm: ch.chance(50) for nm in names}
    edges = {None: []}
    for i, nm in enumerate(names):
        edges[nm] = []
    for i, nm in enumerate(names):
        # ensure reachability: someone before (or main) requires it
        src = None if (i == 0 or ch.chance(110)) else names[ch.below(i)]
        if _same_dir_ok(src, nm, load):
            edges[src].append(nm)
        else:
            edges[None].append(nm)
    for i, nm in enumerate(names):
        for other in names:
            if other != nm and other not in edges[nm] and ch.chance(28) and _same_dir_ok(nm, other, load):
                edges[nm].append(other)       # may create diamonds and cycles
    if names and ch.chance(60):
        edges[None].append(names[ch.below(len(names))])   # required twice from main
    # one file reached under two names: with the default load path `?;?.lua` both "util" and "util.lua" find
    # util.lua; the README counts them as two packages, each with its own use_game_loop choice
    alias = {}
    seed = bytes(seed)
    if load == 'default' and names and len(seed) >= 3 and seed[-1] % 4 == 1:
        real = names[seed[-2] % len(names)]
        al = real + b'.lua'
        alias[al] = real
        ugl[al] = not ugl[real] if seed[-3] % 4 else ugl[real]
        if seed[-3] % 2:
            edges[None].insert(0, al)
        else:
            edges[None].append(al)
        edges[al] = edges[real]
    files = {}
    for who in [None] + names:
        f = File()
        reqs = [(_req_string(who, t, load), ugl[t]) for t in edges[who]]
        harness = (who is not None and not ugl[who] and who not in alias.values() and bytes(seed)[-7] % 3 == 1)
        f.model, f.sites, f.loops = gen_body(ch, reqs, who is not None, avoid, harness)
        f.harness = harness and any(p in ('start', 'middle', 'end') for p in f.loops)
        toks, stmts = luagen.render(f.model, ch)
        mode = ch.pick(['free', 'lines', 'lines', 'minimal'])
        f.lay = luagen.layout(toks, ch, mode)
        f.stmts = stmts
        f.targets = edges[who]
        files[who] = f
    for al, real in alias.items():
        files[al] = files[real]
    return {'names': names, 'edges': edges, 'ugl': ugl, 'load': load, 'files': files, 'alias': alias}


def _dir(name):
    return name.rsplit(b'/', 1)[0] + b'/' if b'/' in name else b''


def _same_dir_ok(src, target, load):
    """With the default / relative load path a package can only require what lies below its own directory."""
    if load in ('abs_cli', 'abs_env'):
        return True
    if load == 'rel_dotdot':
        # `../libs/?.lua` is relative to the requiring file: it works from proj/ and from libs/ itself
        return src is None or b'/' not in src
    d = _dir(src) if src is not None else b''
    return target.startswith(d)


def _req_string(src, target, load):
    if load in ('abs_cli', 'abs_env', 'rel_dotdot'):
        return target
    d = _dir(src) if src is not None else b''
    return target[len(d):]


def key_for(src, target, load):
    """The string the requiring file uses for target (package identity is the string)."""
    return _req_string(src, target, load)


def materialise(case, td):
    """Write files; returns (main path, argv extras, env, key -> File map of reachable packages)."""
    load = case['load']
    proj = os.path.join(td, 'proj')
    libs = os.path.join(td, 'libs')
    os.makedirs(proj)
    os.makedirs(libs)
    base = libs if load in ('abs_cli', 'abs_env', 'rel_dotdot') else proj
    sub = 'lib2' if load == 'rel_cli' else ''
    for nm in case['names']:
        rel = nm.decode('latin-1') + '.lua'
        path = os.path.join(base, sub, rel) if load == 'rel_cli' else os.path.join(base, rel)
        os.makedirs(os.path.dirname(path), exist_ok=True)
        with open(path, 'wb') as fh:
            fh.write(case['files'][nm].lay.src)
    main = os.path.join(proj, 'main.lua')
    with open(main, 'wb') as fh:
        fh.write(case['files'][None].lay.src)
    extra, env = [], {}
    if load == 'rel_cli':
        # relative patterns are resolved against the requiring file's directory
        extra = ['--lua-path', '?.lua;lib2/?.lua']
    elif load == 'abs_cli':
        extra = ['--lua-path', libs + '/?.lua;' + libs + '/?/init.lua']
    elif load == 'abs_env':
        env = {'PICO8_LUA_PATH': libs + '/?.lua'}
    elif load == 'rel_dotdot':
        extra = ['--lua-path', '?.lua;../libs/?.lua']
    return main, extra, env


def package_path(case, td, nm):
    load = case['load']
    base = os.path.join(td, 'libs') if load in ('abs_cli', 'abs_env', 'rel_dotdot') else os.path.join(td, 'proj')
    rel = nm.decode('latin-1') + '.lua'
    return os.path.join(base, 'lib2', rel) if load == 'rel_cli' else os.path.join(base, rel)


def reachable(case):
    """Required strings reachable from main -> target package name (in discovery order)."""
    load = case['load']
    out = {}
    order = []

    def visit(src):
        for t in case['edges'][src]:
            k = key_for(src, t, load)
            if load == 'rel_cli' and src is not None:
                pass
            if k not in out:
                out[k] = t
                order.append(k)
                visit(t)
    visit(None)
    return out, order


def rel_cli_resolvable(case):
    """With '?.lua;lib2/?.lua' only main (in proj/) can find packages in proj/lib2/; packages there look in
    proj/lib2/ and proj/lib2/lib2/.  Keep rel_cli graphs flat: main requires everything."""
    return True


def check_case(seed, case_dict, avoid=()):
    from pico8 import tool
    from pico8.lua import lua as plua
    case = build_case(seed, avoid)
    for f in case['files'].values():
        if luagen.verify(f.lay) is None:
            return None
    load = case['load']
    if load == 'rel_cli':
        # flatten: with lib2/?.lua every package is found only from proj/; make main the only requirer
        if any(case['edges'][nm] for nm in case['names']):
            return None
        if any(b'/' in nm for nm in case['names']):
            return None
    with tempfile.TemporaryDirectory(prefix='c14_') as td:
        main, extra, env = materialise(case, td)
        outp = os.path.join(td, 'proj', 'out.p8')
        old_env = {k: os.environ.get(k) for k in ('PICO8_LUA_PATH',)}
        os.environ.pop('PICO8_LUA_PATH', None)
        os.environ.update(env)
        cwd0 = os.getcwd()
        main_abs = main
        if len(bytes(seed)) >= 8 and bytes(seed)[-8] % 4 == 2:
            # the main file named the way a user standing in the project directory names it: `--lua main.lua`
            os.chdir(os.path.dirname(main_abs))
            main = os.path.basename(main_abs)
            case['bare_main'] = True
        try:
            reach0, order0 = reachable(case)
            if order0 and bytes(seed)[-4] % 3 == 0:
                # the same build attempted first while one required file is missing (it must be rejected), then
                # the file appears and the build is run again in the same process
                victim = case['alias'].get(reach0[order0[-1]], reach0[order0[-1]])
                vpath = package_path(case, td, victim)
                os.rename(vpath, vpath + '.away')
                try:
                    rc0 = tool.main(['build', outp, '--lua', main] + extra)
                    err0 = None
                except Exception as e:
                    rc0, err0 = None, e
                os.rename(vpath + '.away', vpath)
                if err0 is None and rc0 == 0:
                    raise Violation('build succeeded although the file of required package %s does not exist'
                                    % show(victim), case_dict, 'missing-accepted')
                if os.path.exists(outp):
                    raise Violation('rejected build (missing package file) wrote the output cart', case_dict, 'missing-wrote')
                case['after_failed_build'] = True
            try:
                rc = tool.main(['build', outp, '--lua', main] + extra)
                err = None
            except Exception as e:
                rc, err = None, e
        finally:
            os.chdir(cwd0)
            for k, v in old_env.items():
                if v is None:
                    os.environ.pop(k, None)
                else:
                    os.environ[k] = v
        src_show = show(case['files'][None].lay.src, 160)
        if err is not None or rc != 0:
            raise Violation('build of a valid package graph failed: %r -- main %s -- packages %s'
                            % (err if err is not None else rc, src_show,
                               [(n.decode('latin-1'), show(case['files'][n].lay.src, 120)) for n in case['names']][:3]),
                            case_dict, 'build-fails')
        code = reffmt.read_written(open(outp, 'rb').read(), case_dict)['code']
    # parses to the end
    try:
        l = plua.Lua.from_lines([code], version=8)
    except Exception as e:
        raise Violation('built code is rejected by picotool: %r -- %s' % (e, show(code, 300)), case_dict, 'out-parse')
    sigpos = [i for i, t in enumerate(l.tokens) if type(t).__name__ not in ('TokSpace', 'TokNewline', 'TokComment')]
    if sigpos and l.root.end_pos <= sigpos[-1]:
        raise Violation('built code is not parsed to its end by picotool -- %s' % show(code, 300), case_dict, 'out-parse')
    try:
        out = reflex.significant(reflex.lex(code))
    except reflex.Malformed as e:
        raise Violation('built code does not lex: %s -- %s' % (e, show(code, 300)), case_dict, 'out-lex')
    outk = [t.key() for t in out]
    reach, order = reachable(case)
    main_f = case['files'][None]
    main_expected = [tok_key(t.kind, t.text) for t in main_f.lay.kept]
    info = {'packages': len(order), 'strip_not_last': False, 'stripped': False}
    if not order:
        if outk != main_expected:
            raise Violation('main program without require() was changed by build -- main %s -- built %s'
                            % (src_show, show(code, 200)), case_dict, 'main-changed')
        return case, info
    # main at the end
    if outk[len(outk) - len(main_expected):] != main_expected:
        raise Violation('built code does not end with the main program\'s tokens -- main %s -- built tail %s'
                        % (src_show, show(code[-200:], 220)), case_dict, 'main-changed')
    pre = [t.key() for t in reflex.significant(reflex.lex(PREAMBLE))]
    if outk[:len(pre)] != pre:
        raise Violation('built code does not start with the package table -- %s' % show(code[:120], 140), case_dict,
                        'preamble')
    pos = len(pre)
    limit = len(outk) - len(main_expected)
    seen = []
    hdr = lambda name: [('name', b'package'), ('symbol', b'.'), ('name', b'_c'), ('symbol', b'['), ('string', name),
                        ('symbol', b']'), ('symbol', b'='), ('keyword', b'function'), ('symbol', b'('), ('symbol', b')')]
    while pos + 10 <= limit and outk[pos:pos + 4] == hdr(b'')[:4]:
        name = outk[pos + 4][1] if outk[pos + 4][0] == 'string' else None
        takes_varargs = outk[pos + 9] == ('symbol', b'...')
        if takes_varargs:
            del outk[pos + 9]         # (package._c["name"]=function(...): compared like the plain header below)
            limit -= 1
        if name is None or outk[pos:pos + 10] != hdr(name):
            raise Violation('malformed package definition in the built code at token %d' % pos, case_dict, 'package-def')
        if name in seen:
            raise Violation('package %s is defined twice in the built code' % show(name), case_dict, 'defined-twice')
        if name not in reach:
            raise Violation('built code defines package %s which nothing requires' % show(name), case_dict,
                            'unexpected-package')
        seen.append(name)
        f = case['files'][reach[name]]
        if luagen.chunk_uses_varargs(f.model) and not takes_varargs:
            raise Violation('package %s uses `...` at its top level (a chunk is a vararg function), but is embedded as '
                            '`function() ... end`, where `...` does not compile -- package source %s'
                            % (show(name), show(f.lay.src, 200)), case_dict, 'package-varargs')
        if luagen.chunk_uses_varargs(f.model):
            info['chunk_varargs'] = True
        strip = not case['ugl'][reach[name]]
        exp_toks, stripped, strip_not_last = expected_tokens(f, strip)
        info['stripped'] = info['stripped'] or stripped
        info['strip_not_last'] = info['strip_not_last'] or strip_not_last
        used, bad = match_body(outk, pos + 10, exp_toks)
        if bad is not None:
            raise Violation('package %s is not embedded token for token (%s): at token %d expected %s, built code has '
                            '%s -- package source %s'
                            % (show(name), 'game-loop definitions stripped' if strip else 'use_game_loop=true',
                               bad[0], bad[1], bad[2], show(f.lay.src, 200)), case_dict, 'package-body')
        pos += 10 + used
        if pos >= limit or outk[pos] != ('keyword', b'end'):
            raise Violation('package %s body is not closed by `end` right after its code (found %s) -- package source %s'
                            % (show(name), outk[pos] if pos < len(outk) else None, show(f.lay.src, 200)),
                            case_dict, 'package-end')
        pos += 1
    missing = [k for k in order if k not in seen]
    if missing:
        raise Violation('required package(s) %s are not defined in the built code (defined: %s) -- main %s'
                        % ([show(m) for m in missing], [show(s) for s in seen], src_show), case_dict, 'package-missing')
    loader = outk[pos:limit]
    if loader[:3] != [('keyword', b'function'), ('name', b'require'), ('symbol', b'(')] or \
            loader[-1:] != [('keyword', b'end')]:
        raise Violation('no `function require(...) ... end` loader between the packages and the main program (found %s)'
                        % (loader[:6],), case_dict, 'loader')
    return case, info


def part_graphs(ctx):
    def body(seed):
        res = check_case(seed, {'seed': bytes(seed), 'kind': 'graph'}, ctx.open_findings)
        if res is None:
            ctx.stats.exclude('unusable_case')
            return
        case, info = res
        reach, order = reachable(case)
        labs = ['load_' + case['load'], 'packages_%d' % min(len(order), 4)]
        shared = sum(1 for nm in case['names'] if sum(1 for s in case['edges'] if nm in case['edges'][s]) >= 2
                     or case['edges'][None].count(nm) >= 2)
        if shared:
            labs.append('shared_package')
        if any(b'/' in k for k in order):
            labs.append('nested_dir')
        if any(case['edges'][nm] for nm in case['names']):
            labs.append('package_requires_package')
        if info['stripped']:
            labs.append('game_loop_stripped')
        if PAREN_AFTER_STRIPPED[0]:
            labs.append('paren_statement_after_stripped_function')
            PAREN_AFTER_STRIPPED[0] = 0
        if info['strip_not_last']:
            labs.append('game_loop_not_last')
        if any(case['ugl'][reach[k]] for k in order):
            labs.append('use_game_loop')
        if case.get('after_failed_build'):
            labs.append('after_failed_build_in_same_process')
        if case.get('bare_main'):
            labs.append('main_file_given_by_bare_relative_name')
        if info.get('chunk_varargs'):
            labs.append('package_uses_chunk_level_varargs')
        if any(getattr(f, 'harness', False) for f in case['files'].values()):
            labs.append('require_inside_stripped_game_loop')
        if any(b'/' in k and k.split(b'/')[0] in order for k in order):
            labs.append('package_named_like_a_directory')
        for al, real in case['alias'].items():
            labs.append('one_file_two_names')
            if case['ugl'][al] != case['ugl'][real]:
                labs.append('one_file_two_names_different_option')
        for f in case['files'].values():
            for s in f.sites:
                labs.append('site_' + s)
            if not f.lay.src.endswith(b'\n'):
                labs.append('no_final_newline')
        labs = sorted(set(labs))
        nontrivial = len(order) >= 2 and ('shared_package' in labs or 'nested_dir' in labs) and info['strip_not_last']
        ctx.stats.case(seed, nontrivial,
                       {'main': show(case['files'][None].lay.src, 120), 'packages': [k.decode('latin-1') for k in order],
                        'labels': labs}, labs)
    ctx.hyp('graphs', st.binary(min_size=1600, max_size=1600), body, max_examples=120 if ctx.quick else 1500)


# ---------------------------------------------------------------- error cases

ERRORS = [
    ('missing_file', b'require("nope")\nx=1\n'),
    ('missing_nested', b'require("sub/nope")\n'),
    ('zero_args', b'x=1\nrequire()\n'),
    ('three_args', b'require("ok", {use_game_loop=true}, 3)\n'),
    ('non_string', b'require(ok)\n'),
    ('number_arg', b'require(42)\n'),
    ('concat_arg', b'require("o".."k")\n'),
    ('bad_option_value', b'require("ok", {use_game_loop=1})\n'),
    ('bad_option_name', b'require("ok", {use_loop=true})\n'),
    ('two_options', b'require("ok", {use_game_loop=true, x=1})\n'),
    ('option_not_table', b'require("ok", true)\n'),
    ('missing_in_package', b'require("needs_missing")\n'),
    # call forms without parentheses: not "a string literal plus the one supported option" in an argument list
    ('table_call', b'require{"ok"}\n'),
]


def check_error(kind, main_src, out_exists, case_dict):
    from pico8 import tool
    with tempfile.TemporaryDirectory(prefix='c14e_') as td:
        with open(os.path.join(td, 'ok.lua'), 'wb') as fh:
            fh.write(b'return 1\n')
        with open(os.path.join(td, 'needs_missing.lua'), 'wb') as fh:
            fh.write(b'local m = require("really_not_there")\nreturn m\n')
        main = os.path.join(td, 'main.lua')
        with open(main, 'wb') as fh:
            fh.write(main_src)
        outp = os.path.join(td, 'out.p8')
        before = None
        if out_exists:
            before = reffmt.write_p8(8, b'previous=1\n', bytes(0x4300))
            with open(outp, 'wb') as fh:
                fh.write(before)
        listing = sorted(os.listdir(td))
        try:
            rc = tool.main(['build', outp, '--lua', main])
            failed = rc != 0
        except Exception:
            failed = True
        except SystemExit as e:
            failed = bool(e.code)
        if not failed:
            raise Violation('build succeeded although %s: %s' % (kind, show(main_src)), case_dict, 'error-accepted')
        now = open(outp, 'rb').read() if os.path.exists(outp) else None
        if now != before or sorted(os.listdir(td)) != listing:
            raise Violation('failed build (%s) changed or created OUT / left stray files' % kind, case_dict, 'error-out')


def part_errors(ctx):
    for kind, src in ERRORS:
        for out_exists in (False, True):
            check_error(kind, src, out_exists, {'kind': 'error', 'error': kind, 'main': src, 'out_exists': out_exists})
            ctx.stats.case(kind.encode() + bytes((out_exists,)), True, {'error_case': kind, 'main': show(src)},
                           ['error_' + kind])


def parts(tier):
    if tier == 'quick':
        return [('graphs', part_graphs, 12), ('errors', part_errors, 1)]
    return [('graphs', part_graphs, 15), ('errors', part_errors, 1)]


def replay(case):
    if case.get('kind') == 'error':
        check_error(case['error'], case['main'], case['out_exists'], case)
    else:
        check_case(case['seed'], case)


def vacuity(total, tier):
    msgs = []
    for lab in ('shared_package', 'nested_dir', 'package_requires_package', 'game_loop_stripped', 'game_loop_not_last',
                'use_game_loop', 'site_stmt', 'site_local', 'site_in_function', 'load_default', 'load_abs_cli',
                'load_abs_env', 'load_rel_dotdot', 'no_final_newline', 'error_missing_file', 'error_bad_option_value',
                'one_file_two_names_different_option', 'after_failed_build_in_same_process',
                'main_file_given_by_bare_relative_name', 'package_uses_chunk_level_varargs',
                'package_named_like_a_directory', 'require_inside_stripped_game_loop',
                'paren_statement_after_stripped_function'):
        if total.classes.get(lab, 0) < 2:
            msgs.append('class %s seen %d times' % (lab, total.classes.get(lab, 0)))
    return msgs
