"""C13 - `p8tool build` takes each cart section from exactly the source the arguments name."""
import os
import tempfile

from hypothesis import strategies as st

from vlib.runner import Violation, HarnessError, show
from vlib.choices import Choices, expand
from vlib import cartgen, reffmt, refpng

PROPERTY = 'C13'
LEVEL = 'exploration'
RULE = ('case = (pool seed, OUT kind, selector per section). The pool seed expands into a temp directory with two '
        '.p8 sources (a, b; a has a __label__), two .p8.png sources (c, d; random label pixels), one m.lua and the '
        'previous OUT cart, all written by the reference writers (not by picotool), every section pairwise distinct '
        'between all carts and different from the empty default. OUT kind in {x.p8 absent, x.p8 existing with '
        '__label__, x.p8 existing without label, x.p8.png absent, x.p8.png existing with random label pixels}; '
        'selector per section of lua/gfx/gff/map/sfx/music in {unspecified, --empty-X, --X a.p8, --X b.p8, '
        '--X c.p8.png, --X d.p8.png} (lua also --lua m.lua). Part "grid": Hypothesis-drawn cases + every '
        'single-section configuration x 5 OUT kinds; in the thorough tier additionally the complete '
        '{unspecified, .p8, .p8.png, empty}^6 x 5 OUT kinds grid (20,480 builds; which of the two sources of a '
        'kind is used is derived from the grid index) - "exhaustive" refers to that grid. Part "errors": '
        '--X with --empty-X, --X naming a missing file, --X naming an existing file with a wrong extension '
        '(.txt/.png/.p8.bak/.rom, m.lua for a non-lua section), OUT with a wrong extension; every kind x every '
        'section deterministically plus Hypothesis-drawn ones. `pico8.tool.main([\'build\', OUT, ...])` is run; OUT '
        'is decoded by the reference .p8 / PNG+stego readers and by file.from_file and compared section by '
        'section with the selection model; label pixels / __label__ compared with the previous OUT. '
        'Non-trivial = >= 2 sections taken from different source files and OUT pre-existing; distinct by '
        '(pool seed, OUT kind, selectors).'
        ' A quarter of the pools are "twin" pools: source a.p8 holds exactly the data OUT already has and its code (like m.lua\'s) is OUT\'s code with another quote style, so a build changes nothing but the spelling of the Lua section - which must still become the source\'s. d.p8.png and an existing .p8.png OUT are PNGs as image tools re-save them (interlaced, filtered, split IDAT, ancillary chunks).'
        ' Error cases include --X "" (empty string) and --X naming a directory; a third of the single and drawn configurations run after an earlier build in the same process from same-named source files with other contents - one that is rejected, or one that succeeds into another output - after which the sources are replaced on disk; b.p8 may lack its final line ends.'
        " The quick tier also builds every section from one and the same cart (a.p8 / b.p8 / c.p8.png / d.p8.png) for all OUT kinds; c.p8.png's code mentions _update60 and does not compress."
        " a.p8's code uses `#include m.lua` (its Lua section is the spliced code); a third of the builds put the OUT argument last."
        ' A third of the pools have a module-style m.lua whose chunk ends in a root-level `return m`.')
ASSUMPTIONS = ['"section" = the cart memory region (gfx 0x0000-0x1fff incl. the shared half, map 0x2000-0x2fff, gff, '
               'music, sfx) resp. the Lua code text; the version number of OUT is not constrained',
               'empty defaults are taken from the documented empty cart (gfx/map/gff zero, music 41 42 43 44 per '
               'pattern, sfx zero with note duration 1 for sfx 0 and 16 for the others, no code) and verified equal '
               'to Game.make_empty_game() once per process (mismatch = harness error)',
               'music is compared under the .p8 mask (bit 7 of every 4th byte) whenever the value came from a .p8 '
               'source or OUT is a .p8',
               'Lua code is compared modulo one trailing newline between source and stored OUT, and again modulo '
               'one trailing newline between stored OUT and file.from_file (the .p8.png reader appends one)',
               'a .p8 OUT that did not exist or had no __label__ is only required not to pick up a source cart\'s '
               'label (observed and counted, not asserted: a new .p8 gets an all-zero __label__, an unlabelled one '
               'stays unlabelled); '
               'a new .p8.png OUT must carry the bundled empty_023.p8.png label (README: "an empty cartridge '
               'label is used")',
               '"fails" = main returns non-zero or raises (Exception or SystemExit); build --lua-format/--lua-minify '
               'and require() are outside this property']
LEVEL_TEXT = ('Exploration over the section-selection space with independent sources: every source and previous OUT '
              'file is produced by the reference writers and OUT is judged by the reference readers, so neither a '
              'wrong section copy nor a writer/reader-symmetric slip can hide. Thorough tier enumerates the whole '
              '4^6 x 5 selector grid.')
LEVEL_NOTE = 'Trusted: vlib/reffmt.py, vlib/refpng.py, zlib; picotool\'s readers for parsing the reference-written sources.'
TECHNIQUE = ('Hypothesis-drawn + enumerated selector configurations; model-based oracle (section-selection model) '
             'with differential decoding (reference .p8/.p8.png readers and file.from_file)')

SECTIONS = ('lua', 'gfx', 'gff', 'map', 'sfx', 'music')
OUT_KINDS = ('p8_absent', 'p8_label', 'p8_nolabel', 'png_absent', 'png_existing')
CART_SOURCES = ('a.p8', 'b.p8', 'c.p8.png', 'd.p8.png')
SELECTORS = ('none', 'empty') + CART_SOURCES + ('m.lua',)
REGION_OF = {'gfx': (0x0000, 0x2000), 'map': (0x2000, 0x3000), 'gff': (0x3000, 0x3100),
             'music': (0x3100, 0x3200), 'sfx': (0x3200, 0x4300)}
ROW_MASK = int.from_bytes(b'\xfc' * 640, 'big')


# ---------------------------------------------------------------- empty defaults

_empty = None


def empty_defaults():
    """The documented empty cart, verified once against Game.make_empty_game()."""
    global _empty
    if _empty is None:
        sfx = bytearray(68 * 64)
        for i in range(64):
            sfx[i * 68 + 65] = 1 if i == 0 else 16
        e = {'lua': b'', 'gfx': bytes(0x2000), 'map': bytes(0x1000), 'gff': bytes(0x100),
             'music': b'\x41\x42\x43\x44' * 64, 'sfx': bytes(sfx)}
        from pico8.game import game as game_mod
        g = game_mod.Game.make_empty_game()
        got = dict(zip(('gfx', 'map', 'gff', 'music', 'sfx'), cartgen.region_datas(g)))
        got['lua'] = b''.join(g.lua.to_lines())
        for k in SECTIONS:
            if got[k] != e[k]:
                raise HarnessError('documented empty default for %s differs from Game.make_empty_game()' % k)
        _empty = e
    return _empty


_empty_rows = None


def empty_label_rows():
    global _empty_rows
    if _empty_rows is None:
        import pico8.game
        path = os.path.join(os.path.dirname(pico8.game.__file__), 'empty_023.p8.png')
        w, h, planes, rows = refpng.decode(open(path, 'rb').read())
        if (w, h, planes) != (160, 205, 4):
            raise HarnessError('bundled empty label is %dx%d/%d' % (w, h, planes))
        _empty_rows = rows
    return _empty_rows


# ---------------------------------------------------------------- the pool of sources

def _rows(tag, seed):
    pix = expand(tag + seed, 160 * 205 * 4)
    return [pix[y * 640:(y + 1) * 640] for y in range(205)]


def _mem(seed, cart_id):
    mem, modes = cartgen.memory_from_seed(expand(b'mem%d' % cart_id + seed, 64))
    b = bytearray(mem)
    # a cart-specific stamp at the head of every region: regions of mode zero/ff/ramp would otherwise
    # coincide between carts (or with the empty default) and a wrongly copied section would go unseen.
    # Offsets 0 and 1 are not touched by the .p8 music mask.
    for ri, (_n, lo, _hi) in enumerate(cartgen.REGIONS):
        b[lo] = cart_id + 1
        b[lo + 1] = 0x10 + cart_id * 8 + ri
    if cart_id == 1:
        # cart b is saved the way newer PICO-8 versions do: trailing empty rows are omitted from its .p8 file,
        # so its gfx/gff/map/music have empty tails
        b[0x0000 + 192:0x2000] = bytes(0x2000 - 192)
        b[0x3000 + 128:0x3100] = bytes(128)
        b[0x2000 + 256:0x3000] = bytes(0x1000 - 256)
        b[0x3100 + 12:0x3200] = b'\x41\x42\x43\x44' * ((0x100 - 12) // 4)
    return bytes(b), modes


def _sections(mem, code):
    d = {k: mem[lo:hi] for k, (lo, hi) in REGION_OF.items()}
    d['lua'] = code
    return d


_pool_cache = {}


def make_pool(seed):
    """seed -> dict: name -> {'sec': sections, 'data': file bytes, ...}; 'prev' = previous OUT cart."""
    seed = bytes(seed)
    if seed in _pool_cache:
        return _pool_cache[seed]
    r = expand(b'num' + seed, 16)
    codes = {
        # (a.p8's code pulls in m.lua with #include: its Lua section is the code with the file spliced in)
        'a.p8': b'src_a=%d\n#include m.lua\nprint("a")\n' % (1 + r[0]),
        'b.p8': b'src_b=%d\nfunction _draw()\n cls(%d)\nend\n' % (1 + r[1], r[2] % 16),
        # (code that uses _update60 and does not compress: stored as plain text in a .p8.png)
        'c.p8.png': b'src_c=%d\nfunction _update60()\n T="AZ-BY-CX-DW-EV-FU-GT-HS-IR-JQ-KP-LO-MN?"\n'
                    b' U=\'QW-ER-TY-UI-OP-AS-DF-GH-JK-LZ-XC-VB?\'\n V="PL-OK-MI-JN-UH-BY-GV-TF-CR-DX-ES-ZW?"\nend\n' % (1 + r[3]),
        'd.p8.png': b'-- cart d\nsrc_d=%d\nfunction _init()\n t=%d\nend' % (1 + r[4], r[5]),   # no final newline
        'm.lua': b'-- main %d\nsrc_m=%d\nfunction _update()\n src_m+=1\nend\n' % (r[6], 1 + r[7]),
        'prev': b'prev_out=%d\nprint("o")\n' % (1 + r[8]),
    }
    if len(seed) >= 3 and seed[-3] % 3 == 1:
        # m.lua written the way Lua modules are: its chunk ends in a root-level `return` (the file's code is the
        # file's code; a.p8 then includes it last, where a return may stand)
        codes['m.lua'] = b'-- module %d\nlocal m={v=%d}\nfunction m.f()\n return m.v\nend\nreturn m -- the module\n' % (r[6], 1 + r[7])
        codes['a.p8'] = b'src_a=%d\nprint("a")\n#include m.lua\n' % (1 + r[0])
    # "twin" pools: source a.p8 holds exactly the data OUT already has and its code (like m.lua's) is OUT's code
    # spelled differently (quote style), so a build from them changes nothing but the spelling of the Lua section
    twin = seed[0] % 4 == 0
    if twin:
        codes['a.p8'] = codes['prev'].replace(b'"o"', b"'o'")
        codes['m.lua'] = codes['prev'].replace(b'"o"', b'[[o]]')
    pool = {}
    for cid, name in enumerate(CART_SOURCES + ('prev',)):
        mem, modes = _mem(seed, len(CART_SOURCES) if (twin and name == 'a.p8') else cid)
        version = 5 + r[9 + cid] % 37
        pool[name] = {'mem': mem, 'modes': modes, 'version': version, 'sec': _sections(mem, codes[name])}
    pool['m.lua'] = {'sec': {'lua': codes['m.lua']}, 'data': codes['m.lua']}
    if b'#include m.lua\n' in codes['a.p8']:
        pool['a.p8']['sec']['lua'] = codes['a.p8'].replace(b'#include m.lua\n', codes['m.lua'])
    pool['a.p8']['label'] = expand(b'alab' + seed, 8192)
    pool['a.p8']['data'] = reffmt.write_p8(pool['a.p8']['version'], codes['a.p8'], pool['a.p8']['mem'],
                                           label=pool['a.p8']['label'])
    pool['b.p8']['data'] = reffmt.write_p8(pool['b.p8']['version'], codes['b.p8'], pool['b.p8']['mem'], elide=True)
    if seed[1] % 2:
        pool['b.p8']['data'] = pool['b.p8']['data'].rstrip(b'\n')      # an editor stripped the final line ends
    for name in ('c.p8.png', 'd.p8.png'):
        # d.p8.png as an image tool may have re-saved it (interlaced / filtered / extra chunks)
        kw = reffmt.png_flavour(expand(b'flavour' + seed, 4))[0] if name == 'd.p8.png' else None
        pool[name]['data'] = reffmt.write_p8png(_rows(name.encode(), seed), pool[name]['mem'], codes[name],
                                                pool[name]['version'], png_kw=kw)
    pool['prev']['label'] = expand(b'olab' + seed, 8192)
    pool['prev']['rows'] = None
    pool['prev']['out_data'] = {}
    # pairwise distinct in every section, and different from the empty default
    e = empty_defaults()
    for sec in SECTIONS:
        vals = [reffmt.music_mask(pool[n]['sec'][sec]) if sec == 'music' else pool[n]['sec'][sec]
                for n in CART_SOURCES + ('prev',)] + [e[sec]]
        if sec == 'lua':
            vals.append(codes['m.lua'])
        if twin and sec != 'lua':
            vals = vals[1:]          # a.p8 deliberately equals prev
        if len(set(vals)) != len(vals):
            raise HarnessError('pool sections for %s are not pairwise distinct' % sec)
    if len(_pool_cache) >= 3:
        _pool_cache.clear()
    pool['twin'] = twin
    _pool_cache[seed] = pool
    return pool


def prev_out_data(pool, seed, out_kind):
    """Bytes of the pre-existing OUT file for an 'existing' OUT kind (None if OUT is absent)."""
    p = pool['prev']
    if out_kind not in p['out_data']:
        code = p['sec']['lua']
        if out_kind == 'p8_label':
            d = reffmt.write_p8(p['version'], code, p['mem'], label=p['label'])
        elif out_kind == 'p8_nolabel':
            d = reffmt.write_p8(p['version'], code, p['mem'])
        elif out_kind == 'png_existing':
            p['rows'] = _rows(b'prevpix', bytes(seed))
            d = reffmt.write_p8png(p['rows'], p['mem'], code, p['version'],
                                   png_kw=reffmt.png_flavour(expand(b'outflavour' + bytes(seed), 4))[0])
        else:
            d = None
        p['out_data'][out_kind] = d
    return p['out_data'][out_kind]


def populate(td, pool):
    for name in CART_SOURCES + ('m.lua',):
        with open(os.path.join(td, name), 'wb') as fh:
            fh.write(pool[name]['data'])


def out_name(out_kind):
    return 'x.p8' if out_kind.startswith('p8') else 'x.p8.png'


def build_args(td, sel):
    args = []
    for sec in SECTIONS:
        s = sel.get(sec, 'none')
        if s == 'empty':
            args.append('--empty-' + sec)
        elif s == '<empty string>':
            args += ['--' + sec, '']             # e.g. --gfx "$ART" with the variable unset
        elif s != 'none':
            args += ['--' + sec, os.path.join(td, s)]
    return args


def run_main(argv):
    """-> (rc, exception or None)."""
    from pico8 import tool
    try:
        return tool.main(argv), None
    except (Exception, SystemExit) as e:   # noqa: B014 - SystemExit is how argparse reports unusable arguments
        return None, e


def one_newline(a, b):
    return a == b or a == b + b'\n' or a + b'\n' == b


# ---------------------------------------------------------------- the model

def expected_sections(pool, out_kind, sel):
    """-> {sec: (want bytes, masked?, origin text)}"""
    e = empty_defaults()
    exists = out_kind in ('p8_label', 'p8_nolabel', 'png_existing')
    exp = {}
    for sec in SECTIONS:
        s = sel.get(sec, 'none')
        via_p8 = out_kind.startswith('p8')
        if s == 'none':
            want, origin = (pool['prev']['sec'][sec], 'previous OUT') if exists else (e[sec], 'empty default (OUT new)')
        elif s == 'empty':
            want, origin = e[sec], 'empty default (--empty-%s)' % sec
        else:
            want, origin = pool[s]['sec'][sec], s
            via_p8 = via_p8 or s.endswith('.p8')
        exp[sec] = (want, sec == 'music' and via_p8, origin)
    return exp


def whose(pool, sec, got, masked):
    """Name the cart whose section `got` actually is (for messages)."""
    e = empty_defaults()
    cands = [(n, pool[n]['sec'][sec]) for n in CART_SOURCES + ('prev',)] + [('empty default', e[sec])]
    if sec == 'lua':
        cands.append(('m.lua', pool['m.lua']['sec']['lua']))
    for n, v in cands:
        if sec == 'lua':
            if one_newline(got, v) or got.rstrip(b'\n') == v.rstrip(b'\n'):
                return "%s's" % n if n != 'empty default' else 'the empty default'
        elif (reffmt.music_mask(got) == reffmt.music_mask(v)) if (sec == 'music') else (got == v):
            return ("%s's" % n if n != 'empty default' else 'the empty default').replace("prev's", "the previous OUT's")
    return 'none of the carts\''


def compare_sections(pool, exp, got, how, case, ref_code=None):
    for sec in SECTIONS:
        want, masked, origin = exp[sec]
        g = got[sec]
        if sec == 'lua':
            ok = one_newline(g, want) if ref_code is None else (one_newline(g, ref_code) and
                                                                g.rstrip(b'\n') == want.rstrip(b'\n'))
            if not ok:
                raise Violation('%s: lua of OUT is %s (%s code), expected the code of %s: %s'
                                % (how, show(g, 80), whose(pool, sec, g, False), origin, show(want, 80)),
                                case, 'section-lua')
            continue
        if len(g) != len(want):
            raise Violation('%s: %s of OUT has %d bytes, expected %d' % (how, sec, len(g), len(want)), case,
                            'section-size')
        a, b = (reffmt.music_mask(g), reffmt.music_mask(want)) if masked else (g, want)
        if a != b:
            i = [i for i in range(len(a)) if a[i] != b[i]][0]
            raise Violation('%s: %s of OUT is %s section, expected that of %s (first difference at byte %d: 0x%02x vs 0x%02x)'
                            % (how, sec, whose(pool, sec, g, masked), origin, i, a[i], b[i]), case, 'section-' + sec)


def check_build(seed, out_kind, sel, case):
    """Run one valid configuration and judge OUT. Returns labels."""
    from pico8.game import file as pfile
    pool = make_pool(seed)
    exp = expected_sections(pool, out_kind, sel)
    before = prev_out_data(pool, seed, out_kind)
    labs = []
    with tempfile.TemporaryDirectory(prefix='c13_') as td:
        prelude = case.get('prelude')
        if prelude:
            # an earlier build in the same process, from files of the same names with OTHER contents: one that is
            # rejected (its last argument is unusable) or one that succeeds, into another output file.  Then the
            # source files are replaced on disk and the build under test runs.
            other = make_pool(bytes((seed[0] ^ 0x55,)) + bytes(seed[1:]))
            populate(td, other)
            pre_sel = {s: v for s, v in sel.items() if v not in ('none', 'empty')} or {'gfx': 'a.p8', 'map': 'c.p8.png'}
            pre = ['build', os.path.join(td, 'earlier.p8')] + build_args(td, pre_sel)
            if prelude == 'failed':
                pre += ['--music', os.path.join(td, 'nothere.p8')] if 'music' not in pre_sel else ['--empty-music']
            rc0, e0 = run_main(pre)
            if prelude == 'failed' and e0 is None and rc0 == 0:
                raise Violation('the earlier build with an unusable last argument returned 0', case, 'error-accepted')
            if prelude == 'succeeded' and (e0 is not None or rc0 != 0):
                raise Violation('the earlier (valid) build failed: %r' % (e0 if e0 is not None else rc0,), case, 'build-raised')
            if os.path.exists(os.path.join(td, 'earlier.p8')):
                os.unlink(os.path.join(td, 'earlier.p8'))
            labs.append('after_%s_build_in_same_process' % prelude)
        populate(td, pool)
        out = os.path.join(td, out_name(out_kind))
        if before is not None:
            with open(out, 'wb') as fh:
                fh.write(before)
        argv = ['build', out] + build_args(td, sel)
        if bytes(seed)[-1] % 3 == 1 and len(argv) > 2:
            argv = ['build'] + argv[2:] + [out]          # options first, OUT last: the same command
            labs.append('out_argument_last')
        shown = ' '.join(os.path.basename(a) if a.startswith(td) else a for a in argv)
        rc, err = run_main(argv)
        if err is not None:
            raise Violation('`p8tool %s` (OUT %s) raised %r' % (shown, out_kind, err), case, 'build-raised')
        if rc != 0:
            raise Violation('`p8tool %s` (OUT %s) returned %r' % (shown, out_kind, rc), case, 'build-rc')
        if not os.path.exists(out):
            raise Violation('`p8tool %s` returned 0 but wrote no OUT' % shown, case, 'no-out')
        data = open(out, 'rb').read()
        how = '`p8tool %s` (OUT %s)' % (shown, out_kind)
        if out_kind.startswith('p8'):
            try:
                r = reffmt.read_p8(data)
            except Exception as e:
                raise Violation('%s: OUT is not a readable .p8 by the format description: %r' % (how, e), case, 'out-valid')
            got = {k: r[k] for k in ('gfx', 'map', 'gff', 'music', 'sfx')}
            got['lua'] = r['code']
            if out_kind == 'p8_label':
                if r['label'] != pool['prev']['label']:
                    what = 'is missing' if r['label'] is None else (
                        "is a.p8's label" if r['label'] == pool['a.p8']['label'] else
                        'is all zero' if r['label'] == bytes(8192) else 'changed')
                    raise Violation('%s: the __label__ section of the existing OUT %s' % (how, what), case, 'label-p8')
                labs.append('label_kept_p8')
            else:
                # not constrained beyond "its own": a label taken from a source cart is not OUT's label section
                if r['label'] is not None and r['label'] == pool['a.p8']['label']:
                    raise Violation("%s: OUT had no __label__ and now carries a.p8's label" % how, case, 'label-p8')
                labs.append('p8_unlabelled_out_' + ('no_label' if r['label'] is None else
                                                    'zero_label' if r['label'] == bytes(8192) else 'other_label'))
        else:
            try:
                r = reffmt.read_p8png(data)
            except (refpng.PNGError, reffmt.FormatError) as e:
                raise Violation('%s: OUT is not a valid .p8.png by the format description: %s' % (how, e), case, 'out-valid')
            got = {k: r['mem'][lo:hi] for k, (lo, hi) in REGION_OF.items()}
            got['lua'] = reffmt.strip_shim(r['code']) if r['code_kind'] == 'compressed' else r['code']
            rows0 = pool['prev']['rows'] if out_kind == 'png_existing' else empty_label_rows()
            src = 'the previous OUT' if out_kind == 'png_existing' else 'the bundled empty label'
            if (r['width'], r['height'], r['planes']) != (160, 205, 4):
                raise Violation('%s: OUT image is %dx%d/%d planes, label source is 160x205/4'
                                % (how, r['width'], r['height'], r['planes']), case, 'label-png')
            for y in range(205):
                a, b = r['rows'][y], rows0[y]
                if a != b and (int.from_bytes(a, 'big') ^ int.from_bytes(b, 'big')) & ROW_MASK:
                    i = [i for i in range(640) if (a[i] ^ b[i]) & 0xfc][0]
                    raise Violation('%s: label pixel row %d x %d channel %d has upper six bits 0x%02x, %s has 0x%02x'
                                    % (how, y, i // 4, i % 4, a[i] & 0xfc, src, b[i] & 0xfc), case, 'label-png')
            labs.append('label_kept_png' if out_kind == 'png_existing' else 'label_empty_png')
        compare_sections(pool, exp, got, how + ', reference reader', case)
        try:
            g2 = pfile.from_file(out)
        except Exception as e:
            raise Violation('%s: file.from_file(OUT) raised %r' % (how, e), case, 'out-read')
        got2 = dict(zip(('gfx', 'map', 'gff', 'music', 'sfx'), cartgen.region_datas(g2)))
        got2['lua'] = b''.join(g2.lua.to_lines())
        compare_sections(pool, exp, got2, how + ', file.from_file', case, ref_code=got['lua'])
        left = sorted(os.listdir(td))
        want_files = sorted(set(CART_SOURCES + ('m.lua', out_name(out_kind))))
        if left != want_files:
            raise Violation('%s left files %r in the directory' % (how, [f for f in left if f not in want_files]),
                            case, 'stray')
    return labs


def config_labels(out_kind, sel):
    labs = ['out_' + out_kind]
    used = [sel.get(s, 'none') for s in SECTIONS]
    files = set(u for u in used if u not in ('none', 'empty'))
    nspec = sum(1 for u in used if u != 'none')
    labs.append('nspec_%d' % nspec)
    if len(files) >= 2:
        labs.append('mixed_sources')
    for sec in SECTIONS:
        s = sel.get(sec, 'none')
        kind = {'none': 'unspecified', 'empty': 'empty', 'm.lua': 'from_luafile'}.get(
            s, 'from_png' if s.endswith('.png') else 'from_p8')
        labs.append('%s_%s' % (sec, kind))
    exists = out_kind in ('p8_label', 'p8_nolabel', 'png_existing')
    return labs, (len(files) >= 2 and exists)


def case_dict(seed, out_kind, sel, raw=None, prelude=None):
    c = {'kind': 'build', 'pool': bytes(seed), 'out': out_kind, 'sel': {s: sel.get(s, 'none') for s in SECTIONS}}
    if raw is not None:
        c['seed'] = bytes(raw)
    if prelude:
        c['prelude'] = prelude
    return c


def do_case(ctx, seed, out_kind, sel, raw=None, extra=(), prelude=None):
    labs = check_build(seed, out_kind, sel, case_dict(seed, out_kind, sel, raw, prelude))
    cl, nontrivial = config_labels(out_kind, sel)
    key = bytes(seed) + out_kind.encode() + '|'.join(sel.get(s, 'none') for s in SECTIONS).encode()
    ctx.stats.case(key, nontrivial,
                   {'pool': bytes(seed).hex(), 'out': out_kind,
                    'args': ' '.join(('--empty-' + s) if sel.get(s) == 'empty' else '--%s %s' % (s, sel[s])
                                     for s in SECTIONS if sel.get(s, 'none') != 'none')},
                   labs + cl + list(extra))


# ---------------------------------------------------------------- part "grid"

def decode_cfg(raw):
    ch = Choices(raw)
    seed = ch.take(3)
    out_kind = OUT_KINDS[ch.below(5)]
    sel = {}
    for sec in SECTIONS:
        opts = [(4, 'none'), (2, 'empty'), (2, 'a.p8'), (2, 'c.p8.png'), (2, 'b.p8'), (2, 'd.p8.png')]
        if sec == 'lua':
            opts.append((3, 'm.lua'))
        sel[sec] = ch.weighted(opts)
    return seed, out_kind, sel


def single_configs():
    out = []
    for sec in SECTIONS:
        for s in SELECTORS[1:]:
            if s == 'm.lua' and sec != 'lua':
                continue
            for ok in OUT_KINDS:
                out.append((ok, {sec: s}))
    return out


def grid_config(idx):
    """idx in [0, 5 * 4^6) -> (out_kind, sel); the source of a kind is picked by a bit derived from idx."""
    out_kind = OUT_KINDS[idx % 5]
    n = idx // 5
    bits = expand(b'variant%d' % idx, 6)
    sel = {}
    for i, sec in enumerate(SECTIONS):
        c = n % 4
        n //= 4
        v = bits[i] & 1
        sel[sec] = ('none', ('a.p8', 'b.p8')[v], ('c.p8.png', 'd.p8.png')[v], 'empty')[c]
    return out_kind, sel


GRID_SIZE = 5 * 4 ** 6


def part_grid(ctx):
    singles = single_configs()
    for i, (ok, sel) in enumerate(singles):
        if i % ctx.nshards != ctx.shard:
            continue
        seed = ctx.derive('single', i // 31).to_bytes(8, 'big')[:3]
        do_case(ctx, seed, ok, sel, extra=('single',), prelude=(None, 'failed', None, 'succeeded', None, None)[i % 6])

    # twin pools (source = what OUT already holds, Lua spelled differently): OUT must still get the source's text
    twins = [(ok, sel) for ok in OUT_KINDS for sel in (
        {'lua': 'a.p8'}, {'lua': 'm.lua'}, {'lua': 'a.p8', 'gfx': 'a.p8', 'sfx': 'a.p8'},
        {'lua': 'm.lua', 'map': 'a.p8', 'gff': 'a.p8', 'music': 'a.p8', 'gfx': 'a.p8', 'sfx': 'a.p8'})]
    for i, (ok, sel) in enumerate(twins):
        if i % ctx.nshards != ctx.shard:
            continue
        seed = bytes([4 * (ctx.derive('twin', i) % 64)]) + ctx.derive('twinpool', i // 7).to_bytes(8, 'big')[:2]
        do_case(ctx, seed, ok, sel, extra=('twin_pool',))

    # every section from ONE cart (of OUT's format and of the other one): OUT still keeps its own label
    k = 0
    for src in ('a.p8', 'c.p8.png', 'b.p8', 'd.p8.png'):
        for ok in OUT_KINDS:
            k += 1
            if k % ctx.nshards != ctx.shard:
                continue
            seed = ctx.derive('allsix', k // 5).to_bytes(8, 'big')[:3]
            do_case(ctx, seed, ok, {sec: src for sec in SECTIONS}, extra=('all_sections_from_one_cart',))

    def body(raw):
        seed, ok, sel = decode_cfg(raw)
        prelude = (None, None, 'failed', 'succeeded')[raw[-1] % 4]
        do_case(ctx, seed, ok, sel, raw=raw, extra=('drawn',) + (('twin_pool',) if seed[0] % 4 == 0 else ()),
                prelude=prelude)
    ctx.hyp('grid', st.binary(min_size=16, max_size=16), body, max_examples=28 if ctx.quick else 120)

    if not ctx.quick:
        mine = [i for i in range(GRID_SIZE) if i % ctx.nshards == ctx.shard]
        for k, idx in enumerate(mine):
            seed = ctx.derive('gridpool', k // 40).to_bytes(8, 'big')[:3]
            ok, sel = grid_config(idx)
            do_case(ctx, seed, ok, sel, extra=('grid',))
        ctx.stats.extra['exhaustive'] = True
        ctx.stats.extra['grid_configurations'] = len(mine)


# ---------------------------------------------------------------- part "errors"

ERR_KINDS = ('conflict', 'missing', 'wrongext', 'out_wrongext')
MISSING_NAMES = ('nothere.p8', 'nothere.p8.png', 'nothere.lua', '<empty string>', 'a_directory.p8')
WRONGEXT_NAMES = ('w.txt', 'w.png', 'w.p8.bak', 'm.lua', 'w.rom')     # m.lua is wrong for every section but lua
OUT_WRONG_NAMES = ('x.txt', 'x.png', 'x.p8.bak', 'x.lua', 'xp8', 'x.rom')


def check_error(seed, out_kind, sel, err, case):
    """err: {'kind', 'sec', 'name', 'exists'}. The command must fail and leave the directory as it was."""
    pool = make_pool(seed)
    kind = err['kind']
    sel = dict(sel)
    with tempfile.TemporaryDirectory(prefix='c13e_') as td:
        populate(td, pool)
        oname = out_name(out_kind)
        before = prev_out_data(pool, seed, out_kind)
        extra = []
        if kind == 'conflict':
            if sel.get(err['sec'], 'none') in ('none', 'empty'):
                sel[err['sec']] = 'a.p8'
            extra = ['--empty-' + err['sec']]
            what = 'both --%s and --empty-%s' % (err['sec'], err['sec'])
        elif kind == 'missing':
            sel[err['sec']] = err['name']
            what = '--%s naming the missing file %s' % (err['sec'], err['name'])
            if err['name'] == 'a_directory.p8':
                os.mkdir(os.path.join(td, 'a_directory.p8'))
                what = '--%s naming a directory' % err['sec']
        elif kind == 'wrongext':
            name = err['name']
            if name == 'm.lua' and err['sec'] == 'lua':
                name = 'w.txt'
            if name != 'm.lua':
                with open(os.path.join(td, name), 'wb') as fh:
                    fh.write(pool['c.p8.png']['data'] if name == 'w.png' else pool['a.p8']['data'])
            sel[err['sec']] = name
            what = '--%s naming %s (unsupported file type)' % (err['sec'], name)
        elif kind == 'out_wrongext':
            oname = err['name']
            if not err.get('exists'):
                before = None
            elif before is None:
                before = pool['a.p8']['data']
            what = 'output file name %s' % oname
        else:
            raise HarnessError('unknown error kind %r' % kind)
        out = os.path.join(td, oname)
        if before is not None:
            with open(out, 'wb') as fh:
                fh.write(before)
        listing = sorted(os.listdir(td))
        argv = ['build', out] + build_args(td, sel) + extra
        shown = ' '.join(os.path.basename(a) if a.startswith(td) else a for a in argv)
        rc, e = run_main(argv)
        if e is None and rc == 0:
            raise Violation('`p8tool %s` with %s returned 0 (must fail)' % (shown, what), case, 'error-accepted')
        if isinstance(e, SystemExit) and e.code in (0, None):
            raise Violation('`p8tool %s` with %s exited with status 0' % (shown, what), case, 'error-accepted')
        now = open(out, 'rb').read() if os.path.exists(out) else None
        if now != before:
            raise Violation('failed `p8tool %s` (%s) %s OUT' % (shown, what, 'created' if before is None else 'changed'),
                            case, 'error-out-touched')
        if sorted(os.listdir(td)) != listing:
            raise Violation('failed `p8tool %s` (%s) left files %r' % (
                shown, what, [f for f in sorted(os.listdir(td)) if f not in listing]), case, 'error-stray')
    return ['err_' + kind, 'err_raised' if e is not None else 'err_returned_nonzero',
            'err_out_existing' if before is not None else 'err_out_absent']


def decode_error(raw):
    seed, out_kind, sel = decode_cfg(raw[:10])
    ch = Choices(raw[10:])
    kind = ERR_KINDS[ch.below(4)]
    sec = SECTIONS[ch.below(6)]
    err = {'kind': kind, 'sec': sec}
    if kind == 'missing':
        err['name'] = (MISSING_NAMES[:3] if sec == 'lua' else MISSING_NAMES[:2])[ch.below(3 if sec == 'lua' else 2)] \
            if ch.chance(180) else MISSING_NAMES[3 + ch.below(2)]
    elif kind == 'wrongext':
        err['name'] = WRONGEXT_NAMES[ch.below(len(WRONGEXT_NAMES))]
    elif kind == 'out_wrongext':
        err['name'] = OUT_WRONG_NAMES[ch.below(len(OUT_WRONG_NAMES))]
        err['exists'] = bool(ch.below(2))
    return seed, out_kind, sel, err


def error_case(ctx, seed, out_kind, sel, err, raw=None):
    case = {'kind': 'error', 'pool': bytes(seed), 'out': out_kind,
            'sel': {s: sel.get(s, 'none') for s in SECTIONS}, 'err': err}
    if raw is not None:
        case['seed'] = bytes(raw)
    labs = check_error(seed, out_kind, sel, err, case)
    key = repr((bytes(seed), out_kind, sorted(case['sel'].items()), sorted(err.items())))
    ctx.stats.case(key, sum(1 for s in SECTIONS if sel.get(s, 'none') != 'none') >= 2 and 'err_out_existing' in labs,
                   {'pool': bytes(seed).hex(), 'out': out_kind, 'sel': case['sel'], 'error': err},
                   labs + ['errors', 'err_%s_%s' % (err['kind'], err['sec']) if err['kind'] != 'out_wrongext'
                           else 'err_out_wrongext_' + err['name']])


def part_errors(ctx):
    det = []
    for si, sec in enumerate(SECTIONS):
        det.append({'kind': 'conflict', 'sec': sec})
        for nm in MISSING_NAMES:
            if nm.endswith('.lua') and sec != 'lua':
                continue
            det.append({'kind': 'missing', 'sec': sec, 'name': nm})
        for nm in WRONGEXT_NAMES:
            if nm == 'm.lua' and sec == 'lua':
                continue
            det.append({'kind': 'wrongext', 'sec': sec, 'name': nm})
    for nm in OUT_WRONG_NAMES:
        for ex in (False, True):
            det.append({'kind': 'out_wrongext', 'sec': 'lua', 'name': nm, 'exists': ex})
    for i, err in enumerate(det):
        if i % ctx.nshards != ctx.shard:
            continue
        seed = ctx.derive('errpool', i // 16).to_bytes(8, 'big')[:3]
        out_kind = OUT_KINDS[(i * 3 + 1) % 5]
        # the faulty argument alone, and once more behind valid arguments for other sections
        error_case(ctx, seed, out_kind, {}, err)
        others = {s: ('a.p8', 'c.p8.png', 'empty', 'b.p8', 'd.p8.png', 'none')[(i + k) % 6]
                  for k, s in enumerate(SECTIONS) if s != err['sec']}
        error_case(ctx, seed, OUT_KINDS[(i * 3 + 2) % 5], others, err)

    def body(raw):
        seed, out_kind, sel, err = decode_error(raw)
        error_case(ctx, seed, out_kind, sel, err, raw=raw)
    ctx.hyp('errors', st.binary(min_size=16, max_size=16), body, max_examples=40 if ctx.quick else 400)


# ---------------------------------------------------------------- runner interface

def parts(tier):
    if tier == 'quick':
        return [('grid', part_grid, 8), ('errors', part_errors, 2)]
    return [('grid', part_grid, 16), ('errors', part_errors, 4)]


def replay(case):
    sel = {s: case.get('sel', {}).get(s, 'none') for s in SECTIONS}
    if case.get('kind') == 'error':
        check_error(case['pool'], case['out'], sel, case['err'], case)
    else:
        check_build(case['pool'], case['out'], sel, case)


def vacuity(total, tier):
    msgs = []
    need = ['out_' + k for k in OUT_KINDS] + ['err_' + k for k in ERR_KINDS]
    need += ['label_kept_png', 'label_kept_p8', 'label_empty_png', 'mixed_sources', 'lua_from_luafile',
             'err_out_existing', 'err_out_absent', 'twin_pool', 'after_failed_build_in_same_process',
             'after_succeeded_build_in_same_process', 'all_sections_from_one_cart', 'out_argument_last']
    for sec in SECTIONS:
        need += ['%s_%s' % (sec, k) for k in ('from_p8', 'from_png', 'empty', 'unspecified')]
        need.append('err_conflict_' + sec)
        need.append('err_missing_' + sec)
        need.append('err_wrongext_' + sec)
    for lab in need:
        if total.classes.get(lab, 0) < 1:
            msgs.append('class %s never seen' % lab)
    if len(total.nontrivial) < (60 if tier == 'quick' else 5000):
        msgs.append('only %d distinct non-trivial configurations' % len(total.nontrivial))
    if tier != 'quick' and total.extra.get('grid_configurations') != GRID_SIZE:
        msgs.append('grid enumerated %r of %d configurations' % (total.extra.get('grid_configurations'), GRID_SIZE))
    return msgs
