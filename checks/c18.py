"""C18 - raw cart-memory writes land at the addressed bytes and only there."""
from hypothesis import strategies as st
from hypothesis.stateful import RuleBasedStateMachine, initialize, rule

from vlib.runner import Violation, show
from vlib.choices import expand
from vlib import cartgen

PROPERTY = 'C18'
LEVEL = 'exploration'
RULE = ('cases = (prior memory, start address, data) for Game.write_cart_data against a flat '
        '0x4300-byte model; part "boundary" enumerates ALL (start,end) pairs with both ends '
        'within +-2 of the six region boundaries (exhaustive: true for that pair space) with '
        'generated fills, "random" draws arbitrary pairs, "history" is a state machine of write '
        'sequences. Non-trivial = the write is non-empty and starts or ends on a region boundary '
        'or spans >= 2 regions or is an overflow that must be rejected; distinct by (start, len, '
        'hash of data and prior memory).')
ASSUMPTIONS = ['memory map gfx 0x0000, map 0x2000, gff 0x3000, music 0x3100, sfx 0x3200, end 0x4300 '
               '(PICO-8 manual)', 'start addresses are 0x0000..0x42ff (or beyond, for the reject clause); '
               'negative addresses are out of contract and not generated']

SIZES = [hi - lo for _n, lo, hi in cartgen.REGIONS]
END = cartgen.MEM_SIZE


def apply_write(g, model, addr, data, ctxinfo):
    """Run one write on game and model; raise Violation on disagreement. Returns labels."""
    before = cartgen.flat(g)
    case = {'prior_seed': ctxinfo.get('prior_seed'), 'history': ctxinfo.get('history'),
            'addr': addr, 'data': bytes(data)}
    overflow = addr + len(data) > END
    try:
        g.write_cart_data(ctxinfo.get('wrap', bytes)(data), addr)
        raised = None
    except Exception as e:  # noqa
        raised = e
    after_regions = cartgen.region_datas(g)
    sizes = [len(r) for r in after_regions]
    after = b''.join(after_regions)
    if overflow:
        if raised is None:
            raise Violation('write of %d bytes at 0x%x passes 0x4300 but was accepted'
                            % (len(data), addr), case, 'reject')
        if after != before or sizes != SIZES:
            raise Violation('rejected overflowing write at 0x%x modified memory' % addr,
                            case, 'reject-unchanged')
        return
    if raised is not None:
        raise Violation('in-range write addr=0x%x len=%d raised %r' % (addr, len(data), raised),
                        case, 'raises')
    model[addr:addr + len(data)] = data
    if sizes != SIZES:
        raise Violation('region sizes changed to %r after write addr=0x%x len=%d'
                        % (sizes, addr, len(data)), case, 'sizes')
    if after != bytes(model):
        diff = [i for i in range(min(len(after), END)) if after[i] != model[i]]
        raise Violation('memory differs from model at %d addresses (first 0x%x) after write '
                        'addr=0x%x len=%d' % (len(diff), diff[0] if diff else -1, addr, len(data)),
                        case, 'content')


def labels_for(addr, n):
    labs = []
    end = addr + n
    if n == 0:
        labs.append('empty')
    if addr in cartgen.BOUNDARIES:
        labs.append('starts_on_boundary')
    if end in cartgen.BOUNDARIES and n:
        labs.append('ends_on_boundary')
    spanned = sum(1 for _n, lo, hi in cartgen.REGIONS if addr < hi and end > lo) if n else 0
    if spanned >= 2:
        labs.append('spans_regions')
    if end > END:
        labs.append('overflow')
    return labs


def nontrivial(labs):
    return 'empty' not in labs and bool(labs)


def one_case(ctx, prior_seed, addr, data, wrap=bytes):
    mem, _modes = cartgen.memory_from_seed(prior_seed)
    g = cartgen.make_game(mem)
    model = bytearray(mem)
    labs = labels_for(addr, len(data))
    apply_write(g, model, addr, data, {'prior_seed': prior_seed, 'wrap': wrap})
    if ctx is not None:
        ctx.stats.case((addr, bytes(data), prior_seed), nontrivial(labs),
                       {'addr': hex(addr), 'len': len(data), 'data': show(data, 40), 'labels': labs},
                       labs)


def boundary_points():
    pts = set()
    for b in cartgen.BOUNDARIES:
        for d in (-2, -1, 0, 1, 2):
            if 0 <= b + d <= END + 2:
                pts.add(b + d)
    return sorted(pts)


def part_boundary(ctx):
    pts = boundary_points()
    pairs = [(s, e) for s in pts for e in pts if s <= e and not (s >= END and e == s)]
    ctx.stats.extra['boundary_pairs'] = len(pairs)
    ctx.stats.extra['exhaustive'] = True

    def body(v):
        prior_seed, dseed = v
        for (s, e) in pairs:
            data = expand(dseed + bytes([s & 255, e & 255]), e - s)
            one_case(ctx, prior_seed, s, data, bytes if (s + e) % 2 else bytearray)
    ctx.hyp('boundary', st.tuples(st.binary(min_size=24, max_size=24), st.binary(min_size=4, max_size=4)),
            body, max_examples=3 if ctx.quick else 12)


@st.composite
def random_write(draw):
    kind = draw(st.sampled_from(['any', 'any', 'near', 'over']))
    if kind == 'near':
        b = draw(st.sampled_from(cartgen.BOUNDARIES))
        s = min(max(b + draw(st.integers(-70, 70)), 0), END - 1)
    elif kind == 'over':
        s = draw(st.integers(END - 40, END + 40))
    else:
        s = draw(st.integers(0, END - 1))
    n = draw(st.one_of(st.integers(0, 8), st.integers(0, 300), st.integers(0, END + 10)))
    if kind != 'over' and draw(st.booleans()):
        # end exactly on some boundary
        ends = [b for b in cartgen.BOUNDARIES if b >= s]
        n = draw(st.sampled_from(ends)) - s
    dseed = draw(st.binary(min_size=3, max_size=3))
    return s, n, dseed


def part_random(ctx):
    def body(v):
        prior_seed, (s, n, dseed) = v
        one_case(ctx, prior_seed, s, expand(dseed, n))
    ctx.hyp('random', st.tuples(st.binary(min_size=24, max_size=24), random_write()), body,
            max_examples=400 if ctx.quick else 3000)


def part_history(ctx):
    stats = ctx.stats

    class Writes(RuleBasedStateMachine):
        @initialize(prior_seed=st.binary(min_size=24, max_size=24))
        def init(self, prior_seed):
            mem, _ = cartgen.memory_from_seed(prior_seed)
            self.prior_seed = prior_seed
            self.g = cartgen.make_game(mem)
            self.model = bytearray(mem)
            self.history = []
            self.labs = set()

        @rule(w=random_write())
        def write(self, w):
            s, n, dseed = w
            data = expand(dseed, n)
            self.history.append([s, n, dseed])
            self.labs.update(labels_for(s, n))
            apply_write(self.g, self.model, s, data,
                        {'prior_seed': self.prior_seed, 'history': list(self.history)})

        def teardown(self):
            if getattr(self, 'history', None):
                labs = sorted(self.labs)
                stats.case(repr((self.prior_seed, self.history)),
                           len(self.history) >= 2 and nontrivial(labs),
                           {'history': [(hex(s), n) for s, n, _ in self.history][:8], 'labels': labs},
                           ['history_len>=2'] if len(self.history) >= 2 else [])

    ctx.machine('history', Writes, max_examples=60 if ctx.quick else 600, steps=12)


def parts(tier):
    if tier == 'quick':
        return [('boundary', part_boundary, 1), ('random', part_random, 1), ('history', part_history, 1)]
    return [('boundary', part_boundary, 4), ('random', part_random, 8), ('history', part_history, 4)]


def replay(case):
    prior_seed = case['prior_seed']
    if case.get('history'):
        mem, _ = cartgen.memory_from_seed(prior_seed)
        g = cartgen.make_game(mem)
        model = bytearray(mem)
        hist = []
        for s, n, dseed in case['history']:
            hist.append([s, n, dseed])
            apply_write(g, model, s, expand(dseed, n), {'prior_seed': prior_seed, 'history': list(hist)})
        return
    one_case(None, prior_seed, case['addr'], case['data'])
    one_case(None, prior_seed, case['addr'], case['data'], bytearray)


def vacuity(total, tier):
    msgs = []
    for lab in ('starts_on_boundary', 'ends_on_boundary', 'spans_regions', 'overflow'):
        if total.classes.get(lab, 0) < 20:
            msgs.append('class %s seen only %d times' % (lab, total.classes.get(lab, 0)))
    return msgs

LEVEL_TEXT = ('Exploration: exhaustive over the 400-odd (start,end) pairs within +-2 of every region '
              'boundary (the sub-domain the property names), plus thousands of generated pairs and write '
              'histories, each compared byte for byte with a flat-memory model. No absence proof outside '
              'the enumerated pair space.')
LEVEL_NOTE = 'Trusted: the PICO-8 memory map constants; Game.make_empty_game and the region _data bytearrays as the observation point.'
TECHNIQUE = 'exhaustive boundary-pair enumeration + Hypothesis generated writes and stateful write histories vs a flat-memory model'
