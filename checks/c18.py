"""C18 - raw cart-memory writes land at the addressed bytes and only there."""
from hypothesis import strategies as st
from hypothesis.stateful import RuleBasedStateMachine, initialize, rule

from vlib.runner import Violation, show
from vlib.choices import expand
from vlib import cartgen

PROPERTY = 'C18'
LEVEL = 'exploration'
RULE = ('cases = (prior memory, start address, data) for Game.write_cart_data against a flat '
        '0x4300-byte model; part "boundary" enumerates ALL (start,end) pairs with both ends '
        'within +-2 of the six region boundaries (exhaustive: true for that pair space) with '
        'generated fills, "random" draws arbitrary pairs, "history" is a state machine of write '
        'sequences. Non-trivial = the write is non-empty and starts or ends on a region boundary '
        'or spans >= 2 regions or is an overflow that must be rejected; distinct by (start, len, '
        'hash of data and prior memory).'
        " Histories also replace section objects (g.map = Map.from_bytes(...), as the loaders and build do) and copy memory inside the cart (data = the live buffer another region's to_bytes() returns); a twin cart made with from_bytes(to_bytes()) must keep its memory."
        ' Lengths include those of other PICO-8 memory images (0x7fff, 0x8000, 0x8001, 0x10000) at start addresses 0, 1, 0x2000, 0x4200, 0x42ff, 0x4300.'
        " Origin from_p8_empty_sections: carts loaded from a .p8 whose gff/map/music (and sometimes gfx) sections are absent or header-only; the cart's label image must be unchanged by every write (inplace carts are make_empty_game() as it comes)."
        ' Part "optimised" repeats every boundary pair and the ROM-image lengths in a `python -O` child process (assert statements compiled out).')
ASSUMPTIONS = ['memory map gfx 0x0000, map 0x2000, gff 0x3000, music 0x3100, sfx 0x3200, end 0x4300 '
               '(PICO-8 manual)', 'start addresses are 0x0000..0x42ff (or beyond, for the reject clause); '
               'negative addresses are out of contract and not generated']

SIZES = [hi - lo for _n, lo, hi in cartgen.REGIONS]
END = cartgen.MEM_SIZE


def apply_write(g, model, addr, data, ctxinfo):
    """Run one write on game and model; raise Violation on disagreement. Returns labels."""
    before = cartgen.flat(g)
    case = {'prior_seed': ctxinfo.get('prior_seed'), 'history': ctxinfo.get('history'),
            'addr': addr, 'data': bytes(data), 'origin': ctxinfo.get('origin', 'inplace')}
    overflow = addr + len(data) > END
    label_before = bytes(g.label._data) if getattr(g, 'label', None) is not None else None
    try:
        g.write_cart_data(ctxinfo.get('wrap', bytes)(data), addr)
        raised = None
    except Exception as e:  # noqa
        raised = e
    label_after = bytes(g.label._data) if getattr(g, 'label', None) is not None else None
    if label_after != label_before:
        raise Violation('write of %d bytes at 0x%x changed the cart\'s label image, which no cart address maps to'
                        % (len(data), addr), case, 'label-changed')
    after_regions = cartgen.region_datas(g)
    sizes = [len(r) for r in after_regions]
    after = b''.join(after_regions)
    if overflow:
        if raised is None:
            raise Violation('write of %d bytes at 0x%x passes 0x4300 but was accepted'
                            % (len(data), addr), case, 'reject')
        if after != before or sizes != SIZES:
            raise Violation('rejected overflowing write at 0x%x modified memory' % addr,
                            case, 'reject-unchanged')
        return
    if raised is not None:
        raise Violation('in-range write addr=0x%x len=%d raised %r' % (addr, len(data), raised),
                        case, 'raises')
    model[addr:addr + len(data)] = data
    if sizes != SIZES:
        raise Violation('region sizes changed to %r after write addr=0x%x len=%d'
                        % (sizes, addr, len(data)), case, 'sizes')
    if after != bytes(model):
        diff = [i for i in range(min(len(after), END)) if after[i] != model[i]]
        raise Violation('memory differs from model at %d addresses (first 0x%x) after write '
                        'addr=0x%x len=%d' % (len(diff), diff[0] if diff else -1, addr, len(data)),
                        case, 'content')


def labels_for(addr, n):
    labs = []
    end = addr + n
    if n == 0:
        labs.append('empty')
    if addr in cartgen.BOUNDARIES:
        labs.append('starts_on_boundary')
    if end in cartgen.BOUNDARIES and n:
        labs.append('ends_on_boundary')
    spanned = sum(1 for _n, lo, hi in cartgen.REGIONS if addr < hi and end > lo) if n else 0
    if spanned >= 2:
        labs.append('spans_regions')
    if end > END:
        labs.append('overflow')
    return labs


def nontrivial(labs):
    return 'empty' not in labs and bool(labs)


ORIGINS = ('inplace', 'replaced', 'from_p8', 'from_png', 'from_p8_empty_sections')
_label_rows = None


def game_from(mem, origin):
    """A Game holding `mem`, built the way real carts come about: filled in place, sections assigned after
    make_empty_game (as build and the .p8 reader do), loaded from a .p8 file, loaded from a .p8.png file.
    Returns (game, memory as loaded)."""
    global _label_rows
    import io
    from vlib import reffmt, refpng
    if origin == 'inplace':
        # make_empty_game() as it comes (with its blank label image), regions filled in place
        from pico8.game import game as game_mod
        g = game_mod.Game.make_empty_game()
        for (_n, lo, hi), sec in zip(cartgen.REGIONS, (g.gfx, g.map, g.gff, g.music, g.sfx)):
            sec._data[:] = mem[lo:hi]
        return g, bytes(mem)
    if origin == 'replaced':
        from pico8.game import game as game_mod
        from pico8.gfx.gfx import Gfx
        from pico8.gff.gff import Gff
        from pico8.map.map import Map
        from pico8.sfx.sfx import Sfx
        from pico8.music.music import Music
        g = game_mod.Game.make_empty_game()
        g.gfx = Gfx.from_bytes(bytearray(mem[0x0000:0x2000]), version=8)
        g.map = Map.from_bytes(bytearray(mem[0x2000:0x3000]), version=8, gfx=g.gfx)
        g.gff = Gff.from_bytes(bytearray(mem[0x3000:0x3100]), version=8)
        g.music = Music.from_bytes(bytearray(mem[0x3100:0x3200]), version=8)
        g.sfx = Sfx.from_bytes(bytearray(mem[0x3200:0x4300]), version=8)
        return g, bytes(mem)
    if origin == 'from_p8_empty_sections':
        # a .p8 whose gff, map and music sections are empty: written without them (as PICO-8 does) or with their header
        # lines but no rows; every region must still come out at full size
        from pico8.game.formatter.p8 import P8Formatter
        m2 = bytearray(mem)
        m2[0x2000:0x3000] = bytes(0x1000)
        m2[0x3000:0x3100] = bytes(0x100)
        m2[0x3100:0x3200] = b'\x41\x42\x43\x44' * 64
        if m2[0] % 2:
            m2[0x0000:0x2000] = bytes(0x2000)
        text = reffmt.write_p8(8, b'x=1\n', bytes(m2), elide=('headers' if m2[0x3200] % 2 else True))
        g = P8Formatter.from_file(io.BytesIO(text))
        return g, bytes(m2)
    if origin == 'from_p8':
        from pico8.game.formatter.p8 import P8Formatter
        loaded = mem[:0x3100] + reffmt.music_mask(mem[0x3100:0x3200]) + mem[0x3200:]
        g = P8Formatter.from_file(io.BytesIO(reffmt.write_p8(8, b'x=1\n', mem)))
        return g, bytes(loaded)
    from pico8.game.formatter.p8png import P8PNGFormatter, EMPTY_LABEL_FNAME
    if _label_rows is None:
        _label_rows = refpng.decode(open(EMPTY_LABEL_FNAME, 'rb').read())[3]
    g = P8PNGFormatter.from_file(io.BytesIO(reffmt.write_p8png(_label_rows, mem, b'x=1\n', 8)))
    return g, bytes(mem)


SECTION_NAMES = ('gfx', 'map', 'gff', 'music', 'sfx')


def section_from(name, data, g):
    """A new section object holding `data`, made the way the loaders and build make them."""
    from pico8.gfx.gfx import Gfx
    from pico8.gff.gff import Gff
    from pico8.map.map import Map
    from pico8.sfx.sfx import Sfx
    from pico8.music.music import Music
    if name == 'map':
        return Map.from_bytes(data, version=8, gfx=g.gfx)
    return {'gfx': Gfx, 'gff': Gff, 'sfx': Sfx, 'music': Music}[name].from_bytes(data, version=8)


def clone_of(g):
    """A second cart made from the first with the natural idiom Section.from_bytes(other.to_bytes())."""
    from pico8.game import game as game_mod
    c = game_mod.Game.make_empty_game()
    c.gfx = section_from('gfx', g.gfx.to_bytes(), c)
    for name in SECTION_NAMES[1:]:
        setattr(c, name, section_from(name, getattr(g, name).to_bytes(), c))
    return c


def one_case(ctx, prior_seed, addr, data, wrap=bytes, origin='inplace'):
    mem, _modes = cartgen.memory_from_seed(prior_seed)
    try:
        g, mem = game_from(mem, origin)
    except Exception as e:
        raise Violation('cannot obtain a cart (%s): %r' % (origin, e), {'prior_seed': prior_seed, 'origin': origin}, 'setup')
    if cartgen.flat(g) != mem:
        raise Violation('cart obtained via %s does not hold the expected memory' % origin,
                        {'prior_seed': prior_seed, 'origin': origin}, 'setup')
    model = bytearray(mem)
    labs = labels_for(addr, len(data))
    twin = clone_of(g)
    apply_write(g, model, addr, data, {'prior_seed': prior_seed, 'wrap': wrap, 'origin': origin})
    if cartgen.flat(twin) != mem:
        raise Violation('write addr=0x%x len=%d into one cart changed the memory of another cart that was made from it '
                        'beforehand with from_bytes(to_bytes())' % (addr, len(data)),
                        {'prior_seed': prior_seed, 'addr': addr, 'data': bytes(data), 'origin': origin}, 'other-cart')
    if ctx is not None:
        labs = labs + ['origin_' + origin]
        ctx.stats.case((addr, bytes(data), prior_seed, origin), nontrivial(labs),
                       {'addr': hex(addr), 'len': len(data), 'data': show(data, 40), 'labels': labs},
                       labs)


def replace_step(g, model, which, fresh):
    lo, hi = [(a, b) for n, a, b in cartgen.REGIONS if n == which][0]
    data = bytes(model[lo:hi]) if fresh is None else expand(b'fresh' + fresh, hi - lo)
    setattr(g, which, section_from(which, data, g))
    model[lo:hi] = data


def copy_step(g, model, which, addr, keep, info):
    src = getattr(g, which).to_bytes()
    n = min(keep, len(src), END - addr)
    if n < len(src):
        src = src[:n]             # (a slice is a copy; only the whole buffer is the live object)
    apply_write(g, model, addr, bytes(src), dict(info, wrap=lambda _d: src))


def boundary_points():
    pts = set()
    for b in cartgen.BOUNDARIES:
        for d in (-2, -1, 0, 1, 2):
            if 0 <= b + d <= END + 2:
                pts.add(b + d)
    return sorted(pts)


def part_boundary(ctx):
    pts = boundary_points()
    pairs = [(s, e) for s in pts for e in pts if s <= e and not (s >= END and e == s)]
    ctx.stats.extra['boundary_pairs'] = len(pairs)
    ctx.stats.extra['exhaustive'] = True

    def body(v):
        prior_seed, dseed = v
        for k, (s, e) in enumerate(pairs):
            data = expand(dseed + bytes([s & 255, e & 255]), e - s)
            origin = 'inplace' if k % 5 else ORIGINS[1 + (k // 5 + dseed[0]) % 4]
            one_case(ctx, prior_seed, s, data, bytes if (s + e) % 2 else bytearray, origin)
    ctx.hyp('boundary', st.tuples(st.binary(min_size=24, max_size=24), st.binary(min_size=4, max_size=4)),
            body, max_examples=3 if ctx.quick else 12)
    # lengths at the sizes other PICO-8 memory images have (whole cart ROM 0x8000, 64 KiB address space): whatever
    # the start address, a write passing 0x4300 is rejected
    k = 0
    for n in (0x4300, 0x4301, 0x7fff, 0x8000, 0x8001, 0x8005, 0x10000, 0x10001):
        for s in (0, 1, 0x2000, 0x4200, 0x42ff, 0x4300):
            k += 1
            prior = expand(b'rom%d' % k, 24)
            one_case(ctx, prior, s, expand(b'romdata%d' % k, n), bytes if k % 2 else bytearray,
                     ORIGINS[k % 5] if k % 3 == 0 else 'inplace')


@st.composite
def random_write(draw):
    kind = draw(st.sampled_from(['any', 'any', 'near', 'over']))
    if kind == 'near':
        b = draw(st.sampled_from(cartgen.BOUNDARIES))
        s = min(max(b + draw(st.integers(-70, 70)), 0), END - 1)
    elif kind == 'over':
        s = draw(st.integers(END - 40, END + 40))
    else:
        s = draw(st.integers(0, END - 1))
    n = draw(st.one_of(st.integers(0, 8), st.integers(0, 300), st.integers(0, END + 10),
                       st.sampled_from([0x7fff, 0x8000, 0x8001, 0x10000])))
    if n >= 0x7fff and draw(st.booleans()):
        s = 0
    if kind != 'over' and draw(st.booleans()):
        # end exactly on some boundary
        ends = [b for b in cartgen.BOUNDARIES if b >= s]
        n = draw(st.sampled_from(ends)) - s
    dseed = draw(st.binary(min_size=3, max_size=3))
    return s, n, dseed


def part_random(ctx):
    def body(v):
        prior_seed, (s, n, dseed) = v
        one_case(ctx, prior_seed, s, expand(dseed, n), origin=ORIGINS[dseed[1] % 5] if dseed[0] % 3 == 0 else 'inplace')
    ctx.hyp('random', st.tuples(st.binary(min_size=24, max_size=24), random_write()), body,
            max_examples=400 if ctx.quick else 3000)


def part_history(ctx):
    stats = ctx.stats

    class Writes(RuleBasedStateMachine):
        @initialize(prior_seed=st.binary(min_size=24, max_size=24), origin=st.sampled_from(ORIGINS))
        def init(self, prior_seed, origin):
            mem, _ = cartgen.memory_from_seed(prior_seed)
            self.prior_seed = prior_seed
            self.origin = origin
            self.g, mem = game_from(mem, origin)
            self.model = bytearray(mem)
            self.history = []
            self.labs = set()
            self.twin = clone_of(self.g)
            self.twin_mem = bytes(mem)

        @rule(w=random_write())
        def write(self, w):
            s, n, dseed = w
            data = expand(dseed, n)
            self.history.append([s, n, dseed])
            self.labs.update(labels_for(s, n))
            apply_write(self.g, self.model, s, data,
                        {'prior_seed': self.prior_seed, 'history': list(self.history), 'origin': self.origin})
            self.check_twin()

        @rule(which=st.sampled_from(SECTION_NAMES), fresh=st.one_of(st.none(), st.binary(min_size=3, max_size=3)))
        def replace_section(self, which, fresh):
            """Callers assign new section objects (the .p8 loader and build do): later writes go to the new one."""
            self.history.append(['replace', which, fresh])
            self.labs.add('section_replaced')
            replace_step(self.g, self.model, which, fresh)

        @rule(which=st.sampled_from(SECTION_NAMES), addr=st.integers(0, END - 1), keep=st.integers(1, 0x2000))
        def copy_region(self, which, addr, keep):
            """The data is the live buffer another region's to_bytes() returns (copying memory inside one cart)."""
            self.history.append(['copy', which, addr, keep])
            self.labs.update(labels_for(addr, min(keep, len(getattr(self.g, which).to_bytes()))))
            self.labs.add('data_is_region_buffer')
            copy_step(self.g, self.model, which, addr, keep,
                      {'prior_seed': self.prior_seed, 'history': list(self.history), 'origin': self.origin})
            self.check_twin()

        def check_twin(self):
            if cartgen.flat(self.twin) != self.twin_mem:
                raise Violation('writes into one cart changed the memory of another cart made from it beforehand with '
                                'from_bytes(to_bytes())',
                                {'prior_seed': self.prior_seed, 'history': list(self.history), 'origin': self.origin},
                                'other-cart')

        def teardown(self):
            if getattr(self, 'history', None):
                labs = sorted(self.labs)
                stats.case(repr((self.prior_seed, self.history)),
                           len(self.history) >= 2 and nontrivial(labs),
                           {'history': [h[:2] if isinstance(h[0], str) else (hex(h[0]), h[1]) for h in self.history][:8],
                            'labels': labs},
                           (['history_len>=2'] if len(self.history) >= 2 else []) +
                           [x for x in labs if x in ('section_replaced', 'data_is_region_buffer')])

    ctx.machine('history', Writes, max_examples=60 if ctx.quick else 600, steps=12)


# ---------------------------------------------------------------- the same writes under `python -O`

OPT_SCRIPT = ('import sys, json; sys.path.insert(0, %r); from vlib import runner; runner._setup_paths(); '
              'from checks import c18; print("C18OPT " + json.dumps(c18.optimised_cases(json.loads(sys.argv[1]))))')


def optimised_cases(only=None):
    """Runs inside a `python -O` child (assert statements compiled out): every boundary pair plus the ROM-image
    lengths, deterministic fills.  Returns counters or the first violation."""
    from vlib.runner import jsonable, unjson
    if only is not None:
        cases = [unjson(only)]
    else:
        pts = boundary_points()
        cases = [{'prior_seed': expand(b'opt%d' % k, 24), 'addr': s, 'data': expand(bytes([s & 255, e & 255, 7]), e - s),
                  'origin': 'inplace' if k % 4 else ORIGINS[1 + (k // 4) % 4]}
                 for k, (s, e) in enumerate((s, e) for s in pts for e in pts if s <= e and not (s >= END and e == s))]
        for k, n in enumerate((0x4300, 0x4301, 0x8000, 0x10000)):
            for s in (0, 1, 0x42ff, 0x4300):
                cases.append({'prior_seed': expand(b'optrom%d' % k, 24), 'addr': s, 'data': expand(b'o%d' % k, n),
                              'origin': 'inplace'})
    n = over = 0
    for c in cases:
        try:
            one_case(None, c['prior_seed'], c['addr'], c['data'], bytes if n % 2 else bytearray, c.get('origin', 'inplace'))
        except Violation as v:
            case = dict(v.case if isinstance(v.case, dict) else c)
            case['python_flags'] = '-O'
            return {'violation': v.msg, 'case': jsonable(case), 'clause': v.clause}
        n += 1
        over += c['addr'] + len(c['data']) > END
    return {'cases': n, 'overflow': over, 'optimize_flag': __import__('sys').flags.optimize}


def run_optimised(only=None):
    import json
    import subprocess
    import sys
    from vlib import runner
    from vlib.runner import jsonable, unjson
    env = dict(__import__('os').environ, VERIF_REPO=runner.REPO, PYTHONDONTWRITEBYTECODE='1')
    env.pop('PYTHONOPTIMIZE', None)
    p = subprocess.run([sys.executable, '-O', '-c', OPT_SCRIPT % runner.VERIF, json.dumps(jsonable(only))],
                       cwd=runner.VERIF, env=env, capture_output=True, text=True, timeout=900)
    line = [ln for ln in p.stdout.splitlines() if ln.startswith('C18OPT ')]
    if p.returncode != 0 or not line:
        raise runner.HarnessError('python -O child failed (rc %r): %s' % (p.returncode, p.stderr[-400:]))
    res = json.loads(line[-1][7:])
    if res.get('violation'):
        raise Violation('under `python -O` (assert statements compiled out): ' + res['violation'],
                        unjson(res['case']), res.get('clause', 'optimised'))
    return res


def part_optimised(ctx):
    """Interpreter flags are process-wide settings a user chooses: `python -O` / PYTHONOPTIMIZE=1 must not remove the
    range check (rule 8 of DESIGN 7.1)."""
    res = run_optimised()
    if res.get('optimize_flag') != 1:
        from vlib import runner
        raise runner.HarnessError('child did not run with -O: %r' % res)
    ctx.stats.extra['python_O_cases'] = res['cases']
    for k in range(res['cases']):
        ctx.stats.case(('opt', k), k < res['overflow'], {'python_-O_case': k} if k < 2 else None,
                       ['python_-O'] + (['python_-O_overflow'] if k < res['overflow'] else []))


def parts(tier):
    if tier == 'quick':
        return [('boundary', part_boundary, 1), ('random', part_random, 1), ('history', part_history, 1),
                ('optimised', part_optimised, 1)]
    return [('boundary', part_boundary, 4), ('random', part_random, 8), ('history', part_history, 4),
            ('optimised', part_optimised, 1)]


def replay(case):
    prior_seed = case['prior_seed']
    origin = case.get('origin', 'inplace')
    if case.get('python_flags') == '-O':
        run_optimised({k: v for k, v in case.items() if k in ('prior_seed', 'addr', 'data', 'origin')})
        return
    if 'addr' not in case and not case.get('history'):
        one_case(None, prior_seed, 0, b'', origin=origin)
        return
    if case.get('history'):
        mem, _ = cartgen.memory_from_seed(prior_seed)
        g, mem = game_from(mem, origin)
        model = bytearray(mem)
        hist = []
        twin = clone_of(g)
        for h in case['history']:
            hist.append(list(h))
            info = {'prior_seed': prior_seed, 'history': list(hist), 'origin': origin}
            if h[0] == 'replace':
                replace_step(g, model, h[1], h[2])
            elif h[0] == 'copy':
                copy_step(g, model, h[1], h[2], h[3], info)
            else:
                s, n, dseed = h
                apply_write(g, model, s, expand(dseed, n), info)
            if cartgen.flat(twin) != mem:
                raise Violation('writes into one cart changed the memory of another cart made from it', info, 'other-cart')
        return
    one_case(None, prior_seed, case['addr'], case['data'], origin=origin)
    one_case(None, prior_seed, case['addr'], case['data'], bytearray, origin=origin)


def vacuity(total, tier):
    msgs = []
    for lab in ('starts_on_boundary', 'ends_on_boundary', 'spans_regions', 'overflow', 'origin_from_p8', 'origin_from_png',
                'origin_replaced', 'origin_from_p8_empty_sections', 'section_replaced', 'data_is_region_buffer',
                'python_-O_overflow'):
        need = 3 if lab in ('section_replaced', 'data_is_region_buffer', 'origin_from_p8_empty_sections') else 20
        if total.classes.get(lab, 0) < need:
            msgs.append('class %s seen only %d times' % (lab, total.classes.get(lab, 0)))
    return msgs

LEVEL_TEXT = ('Exploration: exhaustive over the 400-odd (start,end) pairs within +-2 of every region '
              'boundary (the sub-domain the property names), plus thousands of generated pairs and write '
              'histories, each compared byte for byte with a flat-memory model. No absence proof outside '
              'the enumerated pair space.')
LEVEL_NOTE = 'Trusted: the PICO-8 memory map constants; Game.make_empty_game and the region _data bytearrays as the observation point.'
TECHNIQUE = 'exhaustive boundary-pair enumeration + Hypothesis generated writes and stateful write histories vs a flat-memory model'
