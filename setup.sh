#!/bin/sh
# Offline setup: make sure hypothesis (and pypng, which picotool needs) import in /venv;
# atheris is optional (thorough tiers use it when present).
cd "$(dirname "$0")" || exit 1
WH=/opt/veriftools/wheels
/venv/bin/python -c "import hypothesis" 2>/dev/null || \
  /venv/bin/pip install --no-index --find-links "$WH" hypothesis || exit 1
/venv/bin/python -c "import png" 2>/dev/null || \
  /venv/bin/pip install --no-index --find-links "$WH" pypng || true
if ! PYTHONPATH=.deps /venv/bin/python -c "import atheris" 2>/dev/null; then
  /venv/bin/pip install --no-index --find-links "$WH" --target .deps atheris >/dev/null 2>&1 || \
    echo "setup: atheris unavailable (optional)"
fi
/venv/bin/python -c "import hypothesis, png; print('setup ok: hypothesis', hypothesis.__version__)"
